"""Confirm a seeded breaking change delivered by a sub-agent and file it under /verif/seeded/<id>/.

usage: python mdsim/confirm_seeded.py <property> <seeded-id> <dir with patch.diff demo.py notes.md> [--skip-suite]

Steps (all in a scratch worktree outside /repo and /verif, removed afterwards):
  1. patch applies on /repo HEAD; 2. demo fails with the change; 3. demo passes without it;
  4. the repository's test suite passes with the change (the baseline pytest command, single process);  5. run the registered check (quick tier)
  against the changed tree and record whether it reports a replayable violation.
"""

from __future__ import annotations

import json
import os
import shutil
import subprocess
import sys
import tempfile
import time

VERIF = os.path.dirname(os.path.dirname(os.path.abspath(__file__)))
PY = "/venv/bin/python"


def sh(cmd, cwd=None, env=None, timeout=3600):
    r = subprocess.run(cmd, cwd=cwd, env=env, capture_output=True, text=True, timeout=timeout)
    return r.returncode, (r.stdout + r.stderr)


def main():
    prop, sid, src = sys.argv[1], sys.argv[2], sys.argv[3]
    skip_suite = "--skip-suite" in sys.argv
    wt = tempfile.mkdtemp(prefix="confirm-")
    os.rmdir(wt)
    meta = {"property": prop, "id": sid, "source": "independent sub-agent given only the property text and its own scratch worktree", "confirmed": {}}
    try:
        rc, out = sh(["git", "-C", "/repo", "worktree", "add", "-f", "--detach", wt, "HEAD"])
        assert rc == 0, out
        meta["repo_head"] = sh(["git", "-C", "/repo", "rev-parse", "--short", "HEAD"])[1].strip().splitlines()[-1]
        env = dict(os.environ, PYTHONPATH=wt)
        demo = os.path.join(wt, "demo_seeded.py")
        shutil.copy(os.path.join(src, "demo.py"), demo)
        # the demos were written for /tmp/agent-XXX paths; make them location independent
        txt = open(demo).read()
        import re

        txt = re.sub(r"/tmp/agent-C\d\d", wt, txt)
        open(demo, "w").write(txt)
        rc0, out0 = sh([PY, demo], cwd=wt, env=env, timeout=900)
        meta["confirmed"]["demo_without_change_exit"] = rc0
        rc, out = sh(["git", "-C", wt, "apply", os.path.join(src, "patch.diff")])
        meta["confirmed"]["patch_applies"] = rc == 0
        assert rc == 0, out
        rc1, out1 = sh([PY, demo], cwd=wt, env=env, timeout=900)
        meta["confirmed"]["demo_with_change_exit"] = rc1
        meta["confirmed"]["demo_with_change_tail"] = out1.strip().splitlines()[-3:]
        if not skip_suite:
            t0 = time.time()
            # the baseline command itself (single process: xdist workers get different hash seeds, which makes hash-dependent
            # parametrisations collect differently per worker and is slower on a loaded machine anyway)
            rc, out = sh([PY, "-m", "pytest", "-q", "-p", "no:cacheprovider", "--timeout=900", "tests/"], cwd=wt, env=env, timeout=5400)
            tail = [l for l in out.strip().splitlines() if "passed" in l or "failed" in l][-1:]
            meta["confirmed"]["suite_with_change"] = {"exit": rc, "tail": tail, "seconds": round(time.time() - t0)}
            if rc != 0:
                # xdist workers die under memory/CPU pressure on the heavy enumeration tests: re-run what failed, alone
                failed = [l.split()[1] for l in out.splitlines() if l.startswith(("FAILED ", "ERROR ")) and len(l.split()) > 1]
                if failed and len(failed) <= 10:
                    rc2, out2 = sh([PY, "-m", "pytest", "-q", "-p", "no:cacheprovider"] + failed, cwd=wt, env=env, timeout=5400)
                    tail2 = [l for l in out2.strip().splitlines() if "passed" in l or "failed" in l][-1:]
                    meta["confirmed"]["suite_with_change"].update({"rerun_of_failed_alone": failed, "rerun_exit": rc2, "rerun_tail": tail2})
                    if rc2 == 0:
                        meta["confirmed"]["suite_with_change"]["exit"] = 0
        os.remove(demo)
        results = {}
        for tier in ["quick"]:
            side = tempfile.mkdtemp(prefix="confirm-out-")
            env2 = dict(os.environ, MDSIM_REPO=wt, MDSIM_REPLAY_DIR=os.path.join(side, "replays"), MDSIM_EVIDENCE_DIR=os.path.join(side, "evidence"))
            t0 = time.time()
            rc, out = sh([os.path.join(VERIF, "check"), "run", prop, "--tier", tier], cwd=VERIF, env=env2, timeout=7200)
            lines = out.splitlines()
            results[tier] = {
                "exit": rc,
                "seconds": round(time.time() - t0),
                "violations": [l for l in lines if l.startswith("VIOLATION")][:4],
                "first": [l[:400] for l in lines if l.startswith(("violation candidate", "  minimised", "HARNESS-ERROR"))][:6],
                "summary": [l for l in lines if l.startswith("mdsim " + prop + ":")][-1:],
            }
            shutil.rmtree(side, ignore_errors=True)
        meta["check_results"] = results
    finally:
        subprocess.run(["git", "-C", "/repo", "worktree", "remove", "--force", wt], capture_output=True)
        shutil.rmtree(wt, ignore_errors=True)
    dst = os.path.join(VERIF, "seeded", sid)
    os.makedirs(dst, exist_ok=True)
    for f in ("patch.diff", "demo.py", "notes.md"):
        if os.path.exists(os.path.join(src, f)):
            shutil.copy(os.path.join(src, f), os.path.join(dst, f))
    ok = meta["confirmed"].get("demo_without_change_exit") == 0 and meta["confirmed"].get("demo_with_change_exit") not in (0, None) and (skip_suite or meta["confirmed"]["suite_with_change"]["exit"] == 0)
    meta["kept"] = bool(ok)
    caught = any(r["exit"] == 1 and r["violations"] for r in meta.get("check_results", {}).values())
    meta["caught_by_quick"] = caught
    json.dump(meta, open(os.path.join(dst, "meta.json"), "w"), indent=1)
    print(json.dumps(meta, indent=1)[:3000])


if __name__ == "__main__":
    main()
