"""mdsim core: seeds, event logs, pristine-child process model, fork servers, job pool.

Process model (DESIGN 2.2)
--------------------------
main (harness)                      never imports maze_dataset
  └─ K×n fork servers               fresh interpreters, each started with its own PYTHONHASHSEED,
       │                            import the library from MDSIM_REPO (default /repo), warm it up once
       └─ driver child per job      forked from the warm server; runs props.<id>.run(spec, ctx)
            └─ stage children       forked from the driver *before* the driver touches library state,
                                    one per simulated process lifetime ("restart" = next stage)

Every run is a pure function of (spec, code): the stdlib `random` state, which CPython re-seeds
from OS entropy in every forked child, is restored explicitly after each fork.
"""

from __future__ import annotations

import hashlib
import json
import os
import random
import select
import shutil
import signal
import struct
import subprocess
import sys
import tempfile
import threading
import time
import traceback
from collections import deque

VERIF_DIR = os.path.dirname(os.path.dirname(os.path.abspath(__file__)))
PYTHON = os.environ.get("MDSIM_PYTHON", "/venv/bin/python")
GUARD = "MAZE_DATASET_VERIF"


# --------------------------------------------------------------------------------------
# seeds / digests
# --------------------------------------------------------------------------------------
def H(*parts) -> int:
    "sha256 of the canonical JSON of parts, as a 63-bit int"
    s = json.dumps(parts, sort_keys=True, separators=(",", ":"), default=str)
    return int.from_bytes(hashlib.sha256(s.encode()).digest()[:8], "big") >> 1


def canon(obj) -> str:
    return json.dumps(obj, sort_keys=True, separators=(",", ":"), default=_json_default)


def _json_default(o):
    try:
        import numpy as np

        if isinstance(o, np.ndarray):
            return {"__nd__": o.tolist(), "dtype": str(o.dtype)}
        if isinstance(o, np.generic):
            return o.item()
    except Exception:  # pragma: no cover
        pass
    if isinstance(o, (set, frozenset)):
        return sorted(_json_default(x) if not isinstance(x, (int, str, float, tuple)) else x for x in o)
    if isinstance(o, bytes):
        return {"__b__": hashlib.sha1(o).hexdigest(), "len": len(o)}
    if isinstance(o, tuple):
        return list(o)
    return repr(o)


def digest(obj) -> str:
    return hashlib.sha256(canon(obj).encode()).hexdigest()[:20]


class EventLog:
    """Append-only list of JSON-able events; logging never draws randomness and never reads a clock."""

    def __init__(self):
        self.events: list = []

    def add(self, *ev):
        self.events.append(list(ev))

    def digest(self) -> str:
        return digest(self.events)


# --------------------------------------------------------------------------------------
# results
# --------------------------------------------------------------------------------------
def ok(log: EventLog | None = None, **kw) -> dict:
    r = {"status": "ok", "digest": log.digest() if log is not None else None}
    r.update(kw)
    return r


def violation(oracle: str, msg: str, log: EventLog | None = None, key: str | None = None, **kw) -> dict:
    """oracle: stable oracle id (e.g. 'C11.returns-fresh-after-damage'); key: finding key used to match
    known_findings.json (identifies the specific input class / call site)."""
    r = {
        "status": "violation",
        "oracle": oracle,
        "msg": msg[:4000],
        "key": key,
        "digest": log.digest() if log is not None else None,
    }
    r.update(kw)
    return r


class Violation(Exception):
    def __init__(self, oracle: str, msg: str, key: str | None = None):
        super().__init__(f"{oracle}: {msg}")
        self.oracle = oracle
        self.msg = msg
        self.key = key


class NotJudged(Exception):
    "the scenario left the property's domain (documented error etc.); counted, never a violation"

    def __init__(self, reason: str):
        super().__init__(reason)
        self.reason = reason


# --------------------------------------------------------------------------------------
# forking helpers (used inside servers / drivers)
# --------------------------------------------------------------------------------------
def _write_all(fd: int, data: bytes):
    view = memoryview(data)
    while view:
        n = os.write(fd, view)
        view = view[n:]


def _read_until_eof(fd: int, deadline: float | None) -> tuple[bytes, bool]:
    chunks = []
    while True:
        if deadline is not None:
            left = deadline - time.monotonic()
            if left <= 0:
                return b"".join(chunks), True
            r, _, _ = select.select([fd], [], [], min(left, 1.0))
            if not r:
                continue
        b = os.read(fd, 1 << 16)
        if not b:
            return b"".join(chunks), False
        chunks.append(b)


_PRISTINE_RANDOM_STATE = None  # captured in the server right after warm-up


def fork_call(fn, args=(), timeout: float | None = 120.0, new_group: bool = False):
    """Run fn(*args) in a forked child; return its JSON-able result.

    Returns {"__harness__": "timeout"|"crashed"|"exception", ...} on harness-level failure.
    The child's stdlib `random` state is restored to the server's pristine state (CPython would
    otherwise re-seed it from OS entropy, the one thing in a fork we cannot replay)."""
    r, w = os.pipe()
    sys.stdout.flush()
    sys.stderr.flush()
    pid = os.fork()
    if pid == 0:
        code = 0
        try:
            os.close(r)
            if new_group:
                try:
                    os.setpgid(0, 0)
                except OSError:
                    pass
            if _PRISTINE_RANDOM_STATE is not None:
                random.setstate(_PRISTINE_RANDOM_STATE)
            try:
                res = fn(*args)
                data = json.dumps(res, default=_json_default).encode()
            except BaseException as e:  # noqa: BLE001 - report everything, the parent classifies
                data = json.dumps(
                    {"__harness__": "exception", "exc": repr(e)[:2000], "trace": traceback.format_exc()[-6000:]}
                ).encode()
            _write_all(w, data)
        except BaseException:  # noqa: BLE001
            code = 3
        finally:
            os._exit(code)
    os.close(w)
    if new_group:
        try:
            os.setpgid(pid, pid)
        except OSError:
            pass
    deadline = None if timeout is None else time.monotonic() + timeout
    data, timed_out = _read_until_eof(r, deadline)
    os.close(r)
    if timed_out:
        try:
            if new_group:
                os.killpg(pid, signal.SIGKILL)
            else:
                os.kill(pid, signal.SIGKILL)
        except OSError:
            pass
    _, st = os.waitpid(pid, 0)
    if new_group:
        try:
            os.killpg(pid, signal.SIGKILL)  # stragglers (grandchildren) of a finished driver
        except OSError:
            pass
    if timed_out:
        return {"__harness__": "timeout", "timeout": timeout}
    if not data:
        return {"__harness__": "crashed", "wait_status": st}
    try:
        return json.loads(data)
    except Exception as e:  # pragma: no cover
        return {"__harness__": "crashed", "decode": repr(e), "wait_status": st}


class StageFailure(Exception):
    pass


def stage(fn, *args, timeout: float = 120.0):
    """Run one simulated *process lifetime* in a pristine grandchild of the server. Used by drivers."""
    res = fork_call(fn, args, timeout=timeout)
    if isinstance(res, dict) and "__harness__" in res:
        raise StageFailure(json.dumps(res)[:6000])
    return res


# --------------------------------------------------------------------------------------
# server side
# --------------------------------------------------------------------------------------
class Ctx:
    def __init__(self, scratch: str, tier: str, hashseed: str, repo: str):
        self.scratch = scratch
        self.tier = tier
        self.hashseed = hashseed
        self.repo = repo


def _send(fd: int, obj):
    data = json.dumps(obj, default=_json_default).encode()
    _write_all(fd, struct.pack("<I", len(data)) + data)


def _recv_exact(fd: int, n: int) -> bytes | None:
    buf = b""
    while len(buf) < n:
        b = os.read(fd, n - len(buf))
        if not b:
            return None
        buf += b
    return buf


def _recv(fd: int):
    hdr = _recv_exact(fd, 4)
    if hdr is None:
        return None
    (n,) = struct.unpack("<I", hdr)
    data = _recv_exact(fd, n)
    if data is None:
        return None
    return json.loads(data)


def _dispatch(job: dict, scratch: str):
    import importlib

    mod = importlib.import_module("mdsim.props." + job["prop"].lower())
    ctx = Ctx(scratch, job.get("tier", "quick"), os.environ.get("PYTHONHASHSEED", "random"), os.environ.get("MDSIM_REPO", "/repo"))
    fn = getattr(mod, job.get("entry", "run"))
    return fn(job["spec"], ctx)


def server_main():
    """One warm interpreter per hash-seed slot; runs up to `capacity` jobs concurrently, each in its own
    forked driver child (own process group, own scratch directory, own deadline)."""
    global _PRISTINE_RANDOM_STATE
    proto_in = os.dup(0)
    proto_out = os.dup(1)
    devnull = os.open(os.devnull, os.O_RDWR)
    os.dup2(devnull, 0)
    debug = bool(os.environ.get("MDSIM_DEBUG"))
    os.dup2(2 if debug else devnull, 1)
    if not debug:
        os.dup2(devnull, 2)
    repo = os.environ.get("MDSIM_REPO", "/repo")
    sys.path.insert(0, repo)
    sys.path.insert(0, VERIF_DIR)
    import warnings

    warnings.filterwarnings("ignore")
    t0 = time.time()
    import maze_dataset  # noqa: F401

    here = os.path.realpath(os.path.dirname(os.path.dirname(maze_dataset.__file__)))
    if here != os.path.realpath(repo):
        _send(proto_out, {"ready": False, "error": f"maze_dataset imported from {here}, wanted {repo}"})
        return
    if not os.environ.get("MDSIM_NO_WARMUP"):
        # first config construction initialises torch lazily (~1.5-2.6 s); default seed keeps GLOBAL_SEED pristine
        maze_dataset.MazeDatasetConfig(name="warmup", grid_n=2, n_mazes=1)
        import muutils.mlutils as _ml

        _ml.set_reproducibility(_ml.DEFAULT_SEED)
    import gc

    gc.collect()
    gc.freeze()  # children fork constantly: keep the warm heap out of every later collection (and out of CoW traffic)
    _PRISTINE_RANDOM_STATE = random.getstate()
    _send(proto_out, {"ready": True, "hashseed": os.environ.get("PYTHONHASHSEED"), "t_import": time.time() - t0})

    running: dict = {}  # read fd -> dict(pid, id, deadline, scratch, chunks)
    stdin_open = True

    def finish(fd, timed_out=False):
        st = running.pop(fd)
        os.close(fd)
        pid = st["pid"]
        if timed_out:
            try:
                os.killpg(pid, signal.SIGKILL)
            except OSError:
                try:
                    os.kill(pid, signal.SIGKILL)
                except OSError:
                    pass
        try:
            _, wst = os.waitpid(pid, 0)
        except ChildProcessError:
            wst = -1
        try:
            os.killpg(pid, signal.SIGKILL)  # stragglers
        except OSError:
            pass
        shutil.rmtree(st["scratch"], ignore_errors=True)
        data = b"".join(st["chunks"])
        if timed_out:
            res = {"__harness__": "timeout", "timeout": st["timeout"]}
        elif not data:
            res = {"__harness__": "crashed", "wait_status": wst}
        else:
            try:
                res = json.loads(data)
            except Exception as e:  # noqa: BLE001
                res = {"__harness__": "crashed", "decode": repr(e), "wait_status": wst}
        _send(proto_out, {"id": st["id"], "res": res})

    def start(job):
        scratch = tempfile.mkdtemp(prefix="mdsim-")
        r, w = os.pipe()
        pid = os.fork()
        if pid == 0:
            code = 0
            try:
                os.close(r)
                for fd in list(running):
                    try:
                        os.close(fd)
                    except OSError:
                        pass
                try:
                    os.setpgid(0, 0)
                except OSError:
                    pass
                random.setstate(_PRISTINE_RANDOM_STATE)
                try:
                    res = _dispatch(job, scratch)
                    data = json.dumps(res, default=_json_default).encode()
                except BaseException as e:  # noqa: BLE001
                    data = json.dumps({"__harness__": "exception", "exc": repr(e)[:2000], "trace": traceback.format_exc()[-6000:]}).encode()
                _write_all(w, data)
            except BaseException:  # noqa: BLE001
                code = 3
            finally:
                os._exit(code)
        os.close(w)
        try:
            os.setpgid(pid, pid)
        except OSError:
            pass
        tmo = float(job.get("timeout", 300.0))
        running[r] = {"pid": pid, "id": job["id"], "deadline": time.monotonic() + tmo, "timeout": tmo, "scratch": scratch, "chunks": []}

    while stdin_open or running:
        rl = list(running)
        if stdin_open:
            rl.append(proto_in)
        now = time.monotonic()
        tmo = 1.0
        for st in running.values():
            tmo = max(0.0, min(tmo, st["deadline"] - now))
        ready, _, _ = select.select(rl, [], [], tmo)
        for fd in ready:
            if fd == proto_in:
                job = _recv(proto_in)
                if job is None or job.get("cmd") == "quit":
                    stdin_open = False
                    for f2 in list(running):
                        finish(f2, timed_out=True)
                    break
                start(job)
            elif fd in running:
                b = os.read(fd, 1 << 16)
                if b:
                    running[fd]["chunks"].append(b)
                else:
                    finish(fd)
        now = time.monotonic()
        for fd in [f for f, st in running.items() if st["deadline"] <= now]:
            finish(fd, timed_out=True)


# --------------------------------------------------------------------------------------
# main side: pool of servers
# --------------------------------------------------------------------------------------
class Server:
    def __init__(self, hashseed: int, slot: int, repo: str, no_warmup: bool = False, optimize: bool = False):
        env = dict(os.environ)
        env["PYTHONHASHSEED"] = str(hashseed)
        # interpreter flags are part of a simulated process' identity: `python -O` strips every assert of the library
        env.pop("PYTHONOPTIMIZE", None)
        if optimize:
            env["PYTHONOPTIMIZE"] = "1"
        self.optimize = optimize
        env["MDSIM_REPO"] = repo
        env[GUARD] = "1"
        env.setdefault("PYTHONPYCACHEPREFIX", os.path.join(tempfile.gettempdir(), "mdsim-pycache"))
        env["OMP_NUM_THREADS"] = "1"
        env["MKL_NUM_THREADS"] = "1"
        env["TQDM_DISABLE"] = "1"
        if no_warmup:
            env["MDSIM_NO_WARMUP"] = "1"
        self.slot = slot
        self.hashseed = hashseed
        self.proc = subprocess.Popen(
            [PYTHON, "-u", "-c", "import sys; sys.path.insert(0, %r); from mdsim.core import server_main; server_main()" % VERIF_DIR],
            stdin=subprocess.PIPE,
            stdout=subprocess.PIPE,
            env=env,
            cwd=tempfile.gettempdir(),
        )
        self.ready = None
        self.send_lock = threading.Lock()
        self.pending: dict = {}
        self.pending_lock = threading.Lock()
        self.next_id = 0
        self.dead = False
        self.reader = None

    def wait_ready(self):
        msg = _recv(self.proc.stdout.fileno())
        self.ready = msg
        if not msg or not msg.get("ready"):
            raise RuntimeError(f"server failed to start: {msg}")
        self.reader = threading.Thread(target=self._read_loop, daemon=True)
        self.reader.start()

    def _read_loop(self):
        fd = self.proc.stdout.fileno()
        while True:
            try:
                msg = _recv(fd)
            except Exception:  # noqa: BLE001
                msg = None
            if msg is None:
                self.dead = True
                with self.pending_lock:
                    for ev, box in self.pending.values():
                        box.append({"__harness__": "server-died", "returncode": self.proc.poll()})
                        ev.set()
                    self.pending.clear()
                return
            with self.pending_lock:
                ent = self.pending.pop(msg["id"], None)
            if ent is not None:
                ent[1].append(msg["res"])
                ent[0].set()

    def call(self, job: dict) -> dict:
        if self.dead:
            return {"__harness__": "server-died"}
        ev = threading.Event()
        box: list = []
        with self.pending_lock:
            self.next_id += 1
            jid = self.next_id
            self.pending[jid] = (ev, box)
        msg = dict(job, id=jid)
        try:
            with self.send_lock:
                _send(self.proc.stdin.fileno(), msg)
        except Exception as e:  # noqa: BLE001
            return {"__harness__": "server-io", "exc": repr(e)}
        ev.wait()
        return box[0]

    def close(self):
        try:
            with self.send_lock:
                _send(self.proc.stdin.fileno(), {"cmd": "quit"})
        except Exception:
            pass
        try:
            self.proc.stdin.close()
        except Exception:
            pass
        try:
            self.proc.wait(timeout=10)
        except Exception:
            self.proc.kill()


class Pool:
    """One warm interpreter per hash-seed slot, `workers` concurrent driver children spread over them.
    Jobs may pin a slot (`job["slot"]`), else any slot takes them."""

    def __init__(self, hashseeds: list[int], n_servers: int | None = None, repo: str | None = None, no_warmup: bool = False, optimize_slots=()):
        repo = repo or os.environ.get("MDSIM_REPO", "/repo")
        self.repo = repo
        ncpu = int(os.environ.get("MDSIM_WORKERS", "0")) or min(16, os.cpu_count() or 4)
        n = n_servers or ncpu
        n = max(n, len(hashseeds))
        self.hashseeds = list(hashseeds)
        self.optimize_slots = {int(x) for x in (optimize_slots or ()) if int(x) < len(hashseeds)}
        self.interpreters = [Server(h, i, repo, no_warmup, optimize=(i in self.optimize_slots)) for i, h in enumerate(hashseeds)]
        errs = []
        for s in self.interpreters:
            try:
                s.wait_ready()
            except Exception as e:  # noqa: BLE001
                errs.append(e)
        if errs:
            self.close()
            raise RuntimeError(f"servers failed: {errs[:2]}")
        # virtual workers: (interpreter) repeated; len == n
        self.servers = [self.interpreters[i % len(hashseeds)] for i in range(n)]

    def run(self, jobs: list[dict], progress: bool = False) -> list[dict]:
        results: list = [None] * len(jobs)
        general = deque()
        slotq = {k: deque() for k in range(len(self.hashseeds))}
        for i, j in enumerate(jobs):
            if j.get("slot") is not None:
                slotq[j["slot"] % len(self.hashseeds)].append(i)
            else:
                general.append(i)
        lock = threading.Lock()
        done = [0]

        def worker(s: Server):
            while True:
                with lock:
                    if slotq[s.slot]:
                        i = slotq[s.slot].popleft()
                    elif general:
                        i = general.popleft()
                    else:
                        return
                try:
                    results[i] = s.call(jobs[i])
                except Exception as e:  # noqa: BLE001
                    results[i] = {"__harness__": "server-io", "exc": repr(e)}
                with lock:
                    done[0] += 1
                    if progress and done[0] % 500 == 0:
                        print(f"  .. {done[0]}/{len(jobs)}", file=sys.stderr, flush=True)

        threads = [threading.Thread(target=worker, args=(s,), daemon=True) for s in self.servers]
        for t in threads:
            t.start()
        for t in threads:
            t.join()
        for i, r in enumerate(results):
            if r is None:
                results[i] = {"__harness__": "not-run"}
        return results

    def close(self):
        for s in self.interpreters:
            s.close()

    def __enter__(self):
        return self

    def __exit__(self, *a):
        self.close()


if __name__ == "__main__":
    server_main()
