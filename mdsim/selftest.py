"""Self-tests of the simulator itself (DESIGN 2.7).

selftest-determinism  every run's event-log digest must be a pure function of (spec, code): the same specs are
                      executed under different worker counts and different PYTHONHASHSEED interpreters and the
                      digests are diffed.
selftest-seeded       applies each seeded breaking change under /verif/seeded/<id>/ to a scratch worktree outside
                      /repo and /verif, runs the registered check against it (MDSIM_REPO), expects a replayable
                      VIOLATION, removes the worktree.
"""

from __future__ import annotations

import importlib
import json
import os
import random
import shutil
import subprocess
import sys
import tempfile
import time

from mdsim import core
from mdsim.main import CLAIMED, VERIF, run_specs

CONFIGS = [(16, [101, 202, 303]), (5, [404, 505, 606]), (1, [707])]
SAMPLE = {"C01": 1500, "C12": 1500, "C03": 150, "C04": 54, "C05": 80, "C08": 150, "C11": 2, "C18": 12, "C19": 0, "C15": 0}


def _digests(mod, prop, workers, hashseeds, n, seed):
    rng = random.Random(core.H("selftest", prop, seed))
    with core.Pool(hashseeds, n_servers=workers) as pool:
        if hasattr(mod, "selftest_pairs"):
            pairs = mod.selftest_pairs(pool, rng)
        elif hasattr(mod, "execute_all"):
            pairs, _ = mod.execute_all(pool, rng, "quick", n)
        else:
            specs = mod.gen_specs(rng, "quick", n)
            pairs = run_specs(pool, mod, specs, "quick")
    out = []
    for s, r in pairs:
        if not isinstance(r, dict) or "__harness__" in r:
            out.append("HARNESS:" + json.dumps(r)[:200])
        else:
            out.append(f"{r.get('status')}:{r.get('oracle')}:{r.get('digest')}")
    return out


def determinism(args) -> int:
    props = [p.upper() for p in (args.props or [])] or [p for p in CLAIMED if SAMPLE.get(p)]
    rc = 0
    report = {}
    for prop in props:
        mod = importlib.import_module("mdsim.props." + prop.lower())
        n = args.runs or SAMPLE.get(prop) or 1
        t0 = time.time()
        base = None
        diffs = 0
        total = 0
        for workers, hashseeds in CONFIGS:
            d = _digests(mod, prop, workers, hashseeds, n, 0)
            if base is None:
                base = d
                total = len(d)
                continue
            if len(d) != len(base):
                diffs += abs(len(d) - len(base)) + 1
            for i, (a, b) in enumerate(zip(base, d)):
                if a != b:
                    diffs += 1
                    if diffs <= 3:
                        print(f"  {prop}: run {i} differs between configs: {a}  vs  {b} (workers={workers}, hashseeds={hashseeds})")
        harness = sum(1 for x in base if x.startswith("HARNESS"))
        report[prop] = {"runs": total, "configs": len(CONFIGS), "diffs": diffs, "harness_failures": harness, "wall_s": round(time.time() - t0, 1)}
        print(f"determinism {prop}: {total} runs x {len(CONFIGS)} (workers, hash-seed) configurations, {diffs} differing digests, {harness} harness failures, {time.time() - t0:.1f}s", flush=True)
        if diffs or harness:
            rc = 1
    os.makedirs(os.path.join(VERIF, "evidence"), exist_ok=True)
    with open(os.path.join(VERIF, "evidence", "selftest-determinism.json"), "w") as f:
        json.dump({"configs": CONFIGS, "report": report}, f, indent=1)
    return rc


def seeded(args) -> int:
    root = os.path.join(VERIF, "seeded")
    ids = args.ids or sorted(d for d in os.listdir(root) if os.path.isdir(os.path.join(root, d)))
    rows = []
    rc = 0
    for sid in ids:
        d = os.path.join(root, sid)
        meta = json.load(open(os.path.join(d, "meta.json")))
        prop = meta["property"]
        wt = tempfile.mkdtemp(prefix="mdsim-seeded-")
        os.rmdir(wt)
        try:
            subprocess.run(["git", "-C", "/repo", "worktree", "add", "-f", "--detach", wt, "HEAD"], check=True, capture_output=True)
            ap = subprocess.run(["git", "-C", wt, "apply", os.path.join(d, "patch.diff")], capture_output=True, text=True)
            if ap.returncode != 0:
                rows.append((sid, prop, "PATCH-FAILED", ap.stderr.strip()[:200]))
                rc = 1
                continue
            side = tempfile.mkdtemp(prefix="mdsim-seeded-out-")
            env = dict(os.environ, MDSIM_REPO=wt, MDSIM_REPLAY_DIR=os.path.join(side, "replays"), MDSIM_EVIDENCE_DIR=os.path.join(side, "evidence"))
            caught = None
            detail = ""
            for check_prop in [prop] + [p for p in meta.get("also_check", [])]:
                t0 = time.time()
                r = subprocess.run([os.path.join(VERIF, "check"), "run", check_prop, "--tier", args.tier], capture_output=True, text=True, env=env, cwd=VERIF)
                viol = [l for l in r.stdout.splitlines() if l.startswith("VIOLATION")]
                first = next((l for l in r.stdout.splitlines() if l.startswith("violation candidate")), "")
                if r.returncode == 1 and viol:
                    caught = check_prop
                    detail = f"{first[:160]} [{time.time() - t0:.0f}s]"
                    break
                detail = f"exit {r.returncode} [{time.time() - t0:.0f}s] " + r.stdout.strip().splitlines()[-1][:160]
            rows.append((sid, prop, f"CAUGHT by {caught} ({args.tier})" if caught else f"MISSED ({args.tier})", detail))
            if not caught and meta.get("expected", "caught") == "caught":
                rc = 1
        finally:
            subprocess.run(["git", "-C", "/repo", "worktree", "remove", "--force", wt], capture_output=True)
            shutil.rmtree(wt, ignore_errors=True)
            shutil.rmtree(locals().get("side") or "/nonexistent", ignore_errors=True)
    for row in rows:
        print(" | ".join(row), flush=True)
    # the catch matrix of the independently written changes, as measured by this run (merged by id)
    mp = os.path.join(root, "matrix.json")
    matrix = json.load(open(mp)) if os.path.exists(mp) else {}
    for sid, prop, verdict, detail in rows:
        matrix[sid] = {"property": prop, "verdict": verdict, "detail": detail, "tier": args.tier}
    with open(mp, "w") as f:
        json.dump(matrix, f, indent=1, sort_keys=True)
    return rc


def models(args) -> int:
    "sanity of the reference models themselves (pure python/numpy, no library)"
    import math
    from fractions import Fraction

    import numpy as np

    from mdsim.models import graph, ust
    from mdsim.props.c08 import exact_percentile

    bad = 0

    def check(name, cond, detail=""):
        nonlocal bad
        print(("ok   " if cond else "FAIL ") + name + (" " + detail if not cond else ""))
        if not cond:
            bad += 1

    for x, k, p in ((3.841458820694124, 1, 0.05), (18.307038053275146, 10, 0.05), (233.99426887, 200, 0.05), (23.209251158954356, 10, 0.01), (300.0, 191, 7.0e-07)):
        v = ust.chi2_sf(x, k)
        check(f"chi2_sf({x:.3f},{k}) ~ {p}", abs(v - p) / p < (0.02 if p > 1e-4 else 0.5), f"got {v}")
    for (r, c), n in (((2, 2), 4), ((2, 3), 15), ((3, 3), 192), ((2, 4), 56), ((4, 4), 100352), ((5, 5), 557568000)):
        check(f"matrix-tree count {r}x{c} = {n}", ust.n_spanning_trees(r, c) == n, str(ust.n_spanning_trees(r, c)))
    for r, c in ((2, 2), (2, 3), (3, 3), (2, 4)):
        trees = ust.enumerate_spanning_trees(r, c)
        check(f"enumeration {r}x{c} matches matrix-tree", len(trees) == ust.n_spanning_trees(r, c) and len(set(trees)) == len(trees))
        marg = ust.edge_marginals(r, c)
        check(f"Kirchhoff marginals {r}x{c} sum to n-1", abs(sum(marg.values()) - (r * c - 1)) < 1e-9)
        # marginals equal the enumerated frequencies
        cnt = {e: 0 for e in marg}
        for t in trees:
            a = np.frombuffer(t, dtype=np.bool_).reshape(2, r, c)
            for e in marg:
                cnt[e] += int(a[e])
        check(f"Kirchhoff marginals {r}x{c} equal enumerated frequencies", all(abs(cnt[e] / len(trees) - marg[e]) < 1e-9 for e in marg))
    rng = np.random.RandomState(0)
    okp = True
    for _ in range(3000):
        n = rng.randint(1, 30)
        a = rng.randint(1, 20, size=n).tolist()
        p = float(rng.choice([0, 10, 25, 50, 75, 100, round(rng.uniform(0, 100), 2)]))
        q = exact_percentile(a, p)
        if abs(float(q) - float(np.percentile(np.array(a), p))) > 1e-9:
            okp = False
    check("exact rational percentile agrees with numpy.percentile to 1e-9 on 3000 random inputs", okp)
    from mdsim.props.c08 import percentile_is_exact_in_floats

    rr = random.Random(7)
    wrong = 0
    n_exact = 0
    for _ in range(60000):
        n = rr.randint(1, 40)
        a = [rr.randint(1, 12) for _ in range(n)]
        if rr.random() < 0.2:
            a = [a[0]] * n
        p = rr.choice([0.0, 10.0, 25.0, 50.0, 75.0, 100.0, 33.3, round(rr.uniform(0, 100), 2), float(rr.randint(0, 100)), rr.uniform(0, 100)])
        q = exact_percentile(a, p)
        got = int(np.percentile(np.array(a), p))
        if percentile_is_exact_in_floats(a, p):
            n_exact += 1
            wrong += got != math.floor(q)
        elif abs(q - round(q)) >= Fraction(1, 10**9):
            wrong += got != math.floor(q)
    check(f"wherever the model grants no tolerance, int(np.percentile) == floor(exact percentile) (60000 random inputs, {n_exact} in the exact class)", wrong == 0, f"{wrong} disagreements")
    conn = np.zeros((2, 3, 3), dtype=np.bool_)
    conn[1, 0, 0] = conn[1, 0, 1] = conn[0, 0, 2] = conn[0, 1, 2] = True
    check("graph: component / bfs on a corridor", graph.component_of(conn, (0, 0)) == {(0, 0), (0, 1), (0, 2), (1, 2), (2, 2)} and graph.bfs_dist(conn, (0, 0))[(2, 2)] == 4)
    check("graph: leaving edge detected", bool(graph.wellformed_errors(np.ones((2, 2, 2), dtype=np.bool_), (2, 2))))
    print(f"models selftest: {bad} failure(s)")
    return 1 if bad else 0


def _apply_edits(wt: str, m: dict) -> str | None:
    "apply a mutant's exact-text edits inside worktree `wt`; returns an error string or None"
    for e in m["edits"]:
        f, old, new = (m["file"], e[0], e[1]) if len(e) == 2 else e
        p = os.path.join(wt, f)
        txt = open(p).read()
        if txt.count(old) != 1:
            return f"edit anchor occurs {txt.count(old)} times in {f}: {old[:60]!r}"
        open(p, "w").write(txt.replace(old, new))
    r = subprocess.run([core.PYTHON, "-c", "import sys; sys.path.insert(0, %r); import warnings; warnings.filterwarnings('ignore'); import maze_dataset, maze_dataset.tokenization.all_tokenizers" % wt], capture_output=True, text=True, cwd="/tmp")
    if r.returncode != 0:
        return "does not import: " + r.stderr.strip()[-300:]
    return None


def mutants(args) -> int:
    "sensitivity matrix over the hand-written mutants in /verif/mutants/mutants.py"
    sys.path.insert(0, os.path.join(VERIF, "mutants"))
    import mutants as mm  # type: ignore

    sel = [m for m in mm.MUTANTS if not args.ids or m["id"] in args.ids or m["property"] in [x.upper() for x in args.ids]]
    matrix_path = os.path.join(VERIF, "mutants", "matrix.json")
    matrix = json.load(open(matrix_path)) if os.path.exists(matrix_path) else {}
    rc = 0
    for m in sel:
        wt = tempfile.mkdtemp(prefix="mdsim-mutant-")
        os.rmdir(wt)
        side = tempfile.mkdtemp(prefix="mdsim-mutant-out-")
        row = {"property": m["property"], "expect": m["expect"], "note": m["note"]}
        try:
            subprocess.run(["git", "-C", "/repo", "worktree", "add", "-f", "--detach", wt, "HEAD"], check=True, capture_output=True)
            err = _apply_edits(wt, m)
            if err:
                row.update(result="BROKEN-MUTANT", detail=err)
                rc = 1
            else:
                env = dict(os.environ, MDSIM_REPO=wt, MDSIM_REPLAY_DIR=os.path.join(side, "replays"), MDSIM_EVIDENCE_DIR=os.path.join(side, "evidence"))
                tiers = [args.tier] if args.tier else (["quick"] if m.get("tier", "quick") == "quick" else ["quick", "thorough"])
                for tier in tiers:
                    t0 = time.time()
                    r = subprocess.run([os.path.join(VERIF, "check"), "run", m["property"], "--tier", tier], capture_output=True, text=True, env=env, cwd=VERIF)
                    lines = r.stdout.splitlines()
                    viol = [l for l in lines if l.startswith("VIOLATION")]
                    first = next((l for l in lines if l.startswith("  minimised")), "") or next((l for l in lines if l.startswith("violation candidate")), "")
                    summ = next((l for l in reversed(lines) if l.startswith("mdsim " + m["property"] + ":")), lines[-1] if lines else "")
                    row[tier] = {"exit": r.returncode, "seconds": round(time.time() - t0), "violations": len(viol), "first": first.strip()[:300], "summary": summ[:200]}
                    if r.returncode == 1 and viol:
                        row["result"] = f"CAUGHT ({tier})"
                        break
                    row["result"] = "HARNESS-ERROR" if r.returncode == 2 else "QUIET"
                ok = (m["expect"] == "caught" and row["result"].startswith("CAUGHT")) or (m["expect"] == "quiet" and row["result"] == "QUIET") or m["expect"] == "either"
                row["as_expected"] = ok
                if not ok:
                    rc = 1
        finally:
            subprocess.run(["git", "-C", "/repo", "worktree", "remove", "--force", wt], capture_output=True)
            shutil.rmtree(wt, ignore_errors=True)
            shutil.rmtree(side, ignore_errors=True)
        matrix[m["id"]] = row
        print(f"{m['id']:45s} {m['property']} expect={m['expect']:7s} -> {row.get('result')}  {json.dumps({k: v for k, v in row.items() if k in ('quick', 'thorough', 'detail')})[:420]}", flush=True)
        with open(matrix_path, "w") as f:
            json.dump(matrix, f, indent=1, sort_keys=True)
    return rc
