"""mdsim command line:  check run <ID> --tier quick|thorough   |   check replay <file>   |   check selftest-*"""

from __future__ import annotations

import argparse
import importlib
import json
import os
import random
import sys
import time

sys.path.insert(0, os.path.dirname(os.path.dirname(os.path.abspath(__file__))))

from mdsim import core  # noqa: E402

VERIF = core.VERIF_DIR
CLAIMED = ["C01", "C03", "C04", "C05", "C08", "C11", "C12", "C15", "C18", "C19"]


def load_known():
    p = os.path.join(VERIF, "known_findings.json")
    if not os.path.exists(p):
        return {"known": [], "fixed": []}
    with open(p) as f:
        return json.load(f)


def match_known(prop: str, res: dict, known: dict):
    for k in known.get("known", []):
        if k["property"] == prop and k["oracle"] == res.get("oracle") and k.get("key") == res.get("key"):
            return k
    return None


def flatten(specs, results):
    "expand batch jobs; returns list of (spec, result)"
    out = []
    for s, r in zip(specs, results):
        if isinstance(r, dict) and r.get("status") == "batch":
            out.extend(zip(s["batch"], r["results"]))
        elif "batch" in s:
            out.extend((x, r) for x in s["batch"])  # harness failure of the whole batch
        else:
            out.append((s, r))
    return out


def make_jobs(mod, specs, tier, timeout=None):
    b = getattr(mod, "BATCH", {}).get(tier)
    timeout = timeout or getattr(mod, "JOB_TIMEOUT", 300.0)
    if b and b > 1:
        groups = [specs[i : i + b] for i in range(0, len(specs), b)]
        return [{"prop": mod.PROP, "tier": tier, "timeout": timeout, "spec": {"batch": g}} for g in groups], [{"batch": g} for g in groups]
    jobs = []
    for s in specs:
        j = {"prop": mod.PROP, "tier": tier, "timeout": timeout, "spec": s}
        if isinstance(s, dict) and s.get("slot") is not None:
            j["slot"] = s["slot"]
        jobs.append(j)
    return jobs, specs


def run_specs(pool, mod, specs, tier, progress=False):
    jobs, shaped = make_jobs(mod, specs, tier)
    results = pool.run(jobs, progress=progress)
    return flatten(shaped, results)


def minimise(pool, mod, spec, res, tier, budget=160):
    "greedy delta debugging driven by the property's own shrinker; same oracle id must keep firing"
    if not hasattr(mod, "shrink"):
        return spec, res, 0
    target = res["oracle"]
    if hasattr(mod, "minimise_budget"):
        budget = mod.minimise_budget(spec)
    tried = 0
    cur, cur_res = spec, res
    improved = True
    while improved and tried < budget:
        improved = False
        it = iter(mod.shrink(cur, cur_res))
        while tried < budget and not improved:
            cands = []
            for c in it:
                cands.append(c)
                if len(cands) >= len(pool.servers):
                    break
            if not cands:
                break
            jobs = []
            for c in cands:
                j = {"prop": mod.PROP, "tier": tier, "timeout": getattr(mod, "JOB_TIMEOUT", 300.0), "spec": c}
                if isinstance(c, dict) and c.get("slot") is not None:
                    j["slot"] = c["slot"]
                jobs.append(j)
            rs = pool.run(jobs)
            tried += len(cands)
            for c, r in zip(cands, rs):
                if isinstance(r, dict) and r.get("status") == "violation" and r.get("oracle") == target:
                    cur, cur_res = c, r
                    improved = True
                    break
    return cur, cur_res, tried


def write_replay(prop, tier, vseed, spec, res, hashseed, original_spec=None, tried=0, optimize=False):
    d = os.path.join(os.environ.get("MDSIM_REPLAY_DIR") or os.path.join(VERIF, "replays"), prop)
    os.makedirs(d, exist_ok=True)
    body = {
        "property": prop,
        "verif_seed": vseed,
        "tier": tier,
        "hashseed": hashseed,
        "optimize": bool(optimize),  # the simulated process ran under `python -O`
        "spec": spec,
        "expect": {"oracle": res.get("oracle"), "key": res.get("key"), "digest": res.get("digest"), "msg": res.get("msg")},
        "minimisation": {"candidates_tried": tried, "original_spec_digest": core.digest(original_spec) if original_spec is not None else None},
    }
    path = os.path.join(d, f"{vseed}-{core.digest([spec, res.get('oracle')])[:12]}.json")
    with open(path, "w") as f:
        json.dump(body, f, indent=1, default=core._json_default)
    return path


def replay_file(path: str, quiet=False) -> tuple[int, dict | None]:
    with open(path) as f:
        body = json.load(f)
    prop = body["property"]
    mod = importlib.import_module("mdsim.props." + prop.lower())
    hs = body.get("hashseed") or 1
    with core.Pool([hs], n_servers=1, optimize_slots=(0,) if body.get("optimize") else ()) as pool:
        job = {"prop": prop, "tier": body.get("tier", "quick"), "timeout": getattr(mod, "JOB_TIMEOUT", 300.0), "spec": body["spec"]}
        res = pool.run([job])[0]
    exp = body["expect"]
    if isinstance(res, dict) and res.get("status") == "violation":
        same = res.get("oracle") == exp.get("oracle")
        same_digest = res.get("digest") == exp.get("digest")
        if not quiet:
            print(f"replay: oracle={res.get('oracle')} (expected {exp.get('oracle')}) digest_match={same_digest}")
            print(f"  {res.get('msg')}")
        if same:
            if not quiet:
                print(f"VIOLATION property={prop} replay={path}")
            return (1 if same_digest or not exp.get("digest") else 3), res
        return 4, res  # another oracle fired: not a reproduction
    if isinstance(res, dict) and "__harness__" in res:
        if not quiet:
            print("HARNESS-ERROR during replay:", json.dumps(res)[:2000])
        return 2, res
    if not quiet:
        print("replay: no violation on this tree")
    return 0, res


def cmd_run(args) -> int:
    prop = args.prop.upper()
    tier = args.tier or os.environ.get("VERIF_TIER") or "quick"
    if tier not in ("quick", "thorough"):
        tier = "quick"
    vseed = int(os.environ.get("VERIF_SEED", "0") or 0)
    mod = importlib.import_module("mdsim.props." + prop.lower())
    root = core.H("root", vseed, prop, tier)
    rng = random.Random(root)
    K = getattr(mod, "HASHSEED_SLOTS", {}).get(tier, 3)
    hashseeds = [rng.randrange(1, 2**32 - 1) for _ in range(K)]
    n = args.runs or mod.RUNS[tier]
    t0 = time.time()
    known = load_known()
    print(f"mdsim {prop} tier={tier} VERIF_SEED={vseed} root={root} runs={n} hashseeds={hashseeds}", flush=True)
    exit_code = 0
    viol_reported = 0
    known_lines = []
    n_servers = getattr(mod, "N_SERVERS", {}).get(tier)
    opt_slots = tuple(getattr(mod, "OPTIMIZE_SLOTS", {}).get(tier, ()))
    with core.Pool(hashseeds, n_servers=n_servers, optimize_slots=opt_slots) as pool:
        t_ready = time.time()
        if hasattr(mod, "execute_all"):
            pairs, extra_cov = mod.execute_all(pool, rng, tier, n)
        else:
            specs = mod.gen_specs(rng, tier, n)
            pairs = run_specs(pool, mod, specs, tier, progress=args.progress)
            extra_cov = {}
            if hasattr(mod, "post"):
                more, cov2 = mod.post(pool, pairs, tier, rng)
                pairs = pairs + more
                extra_cov.update(cov2 or {})
        t_runs = time.time()
        harness = [(s, r) for s, r in pairs if not isinstance(r, dict) or "__harness__" in r]
        viols = [(s, r) for s, r in pairs if isinstance(r, dict) and r.get("status") == "violation"]
        # ---- violations --------------------------------------------------------------------
        seen_oracles = set()
        new_viols = []
        for s, r in viols:
            k = match_known(prop, r, known)
            if k is not None:
                line = f"KNOWN-FINDING: property={prop} oracle={r['oracle']} key={r.get('key')} {k.get('what', '')}"
                if line not in known_lines:
                    known_lines.append(line)
                continue
            new_viols.append((s, r))
        for s, r in new_viols:
            if (r["oracle"], r.get("key")) in seen_oracles or len(seen_oracles) >= 4:
                continue
            seen_oracles.add((r["oracle"], r.get("key")))
            spec0 = r.get("spec", s)
            print(f"violation candidate: {r['oracle']}: {r.get('msg', '')[:600]}", flush=True)
            ms, mr, tried = minimise(pool, mod, spec0, r, tier)
            hs = hashseeds[(ms.get("slot") or 0) % len(hashseeds)] if isinstance(ms, dict) else hashseeds[0]
            slim = {k: v for k, v in mr.items() if k not in ("draws", "spec", "stats")}
            opt = isinstance(ms, dict) and ((ms.get("slot") or 0) % len(hashseeds)) in pool.optimize_slots and ms.get("slot") is not None
            path = write_replay(prop, tier, vseed, ms, slim, hs, original_spec=spec0, tried=tried, optimize=opt)
            code, rres = replay_file(path, quiet=True)
            if code == 3:
                # same oracle, different event digest: replay once more - if the oracle fires again the violation is real and it is
                # the *violating execution* that is not a function of the replay file (e.g. the changed code draws from OS entropy)
                code2, _ = replay_file(path, quiet=True)
                if code2 in (1, 3):
                    print(f"  note: replays of {path} reproduce the violation {r['oracle']} but not the identical event digest (the violating behaviour itself is nondeterministic)")
                    code = 1
            if code == 1:
                print(f"  minimised after {tried} candidate runs: {mr.get('msg', '')[:600]}")
                print(f"VIOLATION property={prop} replay={path}", flush=True)
                viol_reported += 1
                exit_code = 1
            else:
                print(f"HARNESS-ERROR: violation {r['oracle']} did not replay identically from {path} (code {code}): {json.dumps(rres)[:1500]}", flush=True)
                if exit_code == 0:
                    exit_code = 2
    for line in known_lines:
        print(line)
    if harness:
        print(f"HARNESS-ERROR: {len(harness)} run(s) failed in the harness; first: {json.dumps(harness[0][1])[:3000]}", flush=True)
        if exit_code == 0:
            exit_code = 2
    # ---- evidence ---------------------------------------------------------------------------
    wall = time.time() - t0
    stats: dict = {}
    nontrivial = set()
    samples = []
    n_ok = 0
    for s, r in pairs:
        if not isinstance(r, dict):
            continue
        for k, v in (r.get("stats") or {}).items():
            if isinstance(v, (int, float)):
                stats[k] = stats.get(k, 0) + v
        if r.get("nontrivial"):
            nontrivial.add(r["nontrivial"])
        if r.get("status") == "ok":
            n_ok += 1
    step = max(1, len(pairs) // 5)
    for s, r in pairs[::step][:5]:
        try:
            samples.append(mod.sample_of(s, r) if hasattr(mod, "sample_of") else {"spec": s, "digest": (r or {}).get("digest")})
        except Exception:  # noqa: BLE001
            samples.append({"spec": s})
    cov = {
        "evaluations": len(pairs),
        "distinct_nontrivial": len(nontrivial),
        "rule": getattr(mod, "RULE", ""),
        "samples": samples,
        "runs_ok": n_ok,
        "counters": {k: stats[k] for k in sorted(stats)},
        "runs_per_hour": int(len(pairs) / max(1e-9, (t_runs - t_ready)) * 3600),
        "seeds": {"VERIF_SEED": vseed, "root": root, "per_run": "H(root, i) drawn from random.Random(root)", "hashseeds": hashseeds, "slots_running_python_-O": sorted(opt_slots)},
        "simulated_time": "not applicable: no library logic reads a clock for decisions (DESIGN 2.3 S-CLOCK)",
        "components": getattr(mod, "COMPONENTS", {}),
        "known_findings_hit": known_lines,
        "harness_failures": len(harness),
        "startup_s": round(t_ready - t0, 2),
    }
    cov.update(extra_cov or {})
    ev = {
        "property_id": prop,
        "tier": tier,
        "seed": vseed,
        "level": mod.LEVEL,
        "coverage": cov,
        "assumptions": getattr(mod, "ASSUMPTIONS", []),
        "wall_s": round(wall, 2),
        "violations": viol_reported,
    }
    evdir = os.environ.get("MDSIM_EVIDENCE_DIR") or os.path.join(VERIF, "evidence")
    if os.environ.get("MDSIM_REPO") not in (None, "", "/repo") and not os.environ.get("MDSIM_EVIDENCE_DIR"):
        # a run against a scratch copy (sensitivity test) must never overwrite the evidence of /repo
        import tempfile

        evdir = os.path.join(tempfile.gettempdir(), "mdsim-scratch-evidence")
    os.makedirs(evdir, exist_ok=True)
    with open(os.path.join(evdir, f"{prop}.json"), "w") as f:
        json.dump(ev, f, indent=1, default=core._json_default)
    print(
        f"mdsim {prop}: {len(pairs)} runs, {cov['distinct_nontrivial']} distinct non-trivial, {len(viols)} violating runs "
        f"({viol_reported} reported, {len(known_lines)} known), {len(harness)} harness failures, {wall:.1f}s -> exit {exit_code}",
        flush=True,
    )
    return exit_code


def cmd_replay(args) -> int:
    code, _ = replay_file(args.path)
    if code == 3:
        print("note: the same violation fired, with a different event digest than recorded (the violating behaviour itself is nondeterministic)")
    return 1 if code in (1, 3) else (0 if code == 0 else 2)


def cmd_setup(args) -> int:
    "nothing is compiled; verify that the interpreter, the library (from /repo) and the schemas are usable offline"
    import subprocess

    repo = os.environ.get("MDSIM_REPO", "/repo")
    code = (
        "import sys; sys.path.insert(0, %r); import warnings; warnings.filterwarnings('ignore'); "
        "import numpy, torch, zanj, muutils, maze_dataset, os; "
        "print('python', sys.version.split()[0], 'numpy', numpy.__version__, 'torch', torch.__version__, 'maze_dataset from', os.path.dirname(maze_dataset.__file__))"
    ) % repo
    r = subprocess.run([core.PYTHON, "-c", code], capture_output=True, text=True, cwd="/tmp")
    print(r.stdout.strip())
    if r.returncode != 0:
        print("setup failed:", r.stderr[-2000:])
        return 2
    try:
        import jsonschema

        with open(os.path.join(VERIF, "MANIFEST.json")) as f:
            man = json.load(f)
        sp = "/root/.vp/MANIFEST.schema.json"
        if os.path.exists(sp):
            with open(sp) as f:
                jsonschema.validate(man, json.load(f))
            print("MANIFEST.json validates")
    except ImportError:
        pass
    os.makedirs(os.path.join(VERIF, "evidence"), exist_ok=True)
    return 0


def cmd_sweep(args) -> int:
    "no-alarm sweep: run a check's tier under many VERIF_SEEDs (evidence and replays go to a scratch dir)"
    import subprocess
    import tempfile

    side = tempfile.mkdtemp(prefix="mdsim-sweep-")
    bad = 0
    for prop in args.props:
        for seed in range(args.first, args.first + args.seeds):
            env = dict(os.environ, VERIF_SEED=str(seed), MDSIM_EVIDENCE_DIR=os.path.join(side, "evidence"), MDSIM_REPLAY_DIR=os.path.join(VERIF, "replays", "sweep"))
            t0 = time.time()
            r = subprocess.run([os.path.join(VERIF, "check"), "run", prop, "--tier", args.tier], capture_output=True, text=True, env=env, cwd=VERIF)
            last = (r.stdout.strip().splitlines() or ["<no output>"])[-1]
            flag = "ok" if r.returncode == 0 else "ALARM"
            if r.returncode != 0:
                bad += 1
                for line in r.stdout.splitlines():
                    if line.startswith(("VIOLATION", "HARNESS-ERROR", "violation candidate", "  minimised")):
                        print("    " + line[:1500])
            print(f"sweep {prop} seed={seed} exit={r.returncode} {flag} {time.time() - t0:.0f}s :: {last[:200]}", flush=True)
    print(f"sweep done: {bad} alarm(s)")
    return 1 if bad else 0


def main(argv=None) -> int:
    ap = argparse.ArgumentParser(prog="check")
    sub = ap.add_subparsers(dest="cmd", required=True)
    su = sub.add_parser("setup")
    su.set_defaults(fn=cmd_setup)
    r = sub.add_parser("run")
    r.add_argument("prop")
    r.add_argument("--tier", default=None)
    r.add_argument("--runs", type=int, default=None)
    r.add_argument("--progress", action="store_true")
    r.set_defaults(fn=cmd_run)
    p = sub.add_parser("replay")
    p.add_argument("path")
    p.set_defaults(fn=cmd_replay)
    sw = sub.add_parser("sweep")
    sw.add_argument("props", nargs="+")
    sw.add_argument("--seeds", type=int, default=50)
    sw.add_argument("--first", type=int, default=0)
    sw.add_argument("--tier", default="quick")
    sw.set_defaults(fn=cmd_sweep)
    st = sub.add_parser("selftest-determinism")
    st.add_argument("props", nargs="*")
    st.add_argument("--runs", type=int, default=None)
    st.set_defaults(fn=lambda a: importlib.import_module("mdsim.selftest").determinism(a))
    smo = sub.add_parser("selftest-models")
    smo.set_defaults(fn=lambda a: importlib.import_module("mdsim.selftest").models(a))
    sm = sub.add_parser("selftest-seeded")
    sm.add_argument("ids", nargs="*")
    sm.add_argument("--tier", default="quick")
    sm.set_defaults(fn=lambda a: importlib.import_module("mdsim.selftest").seeded(a))
    smu = sub.add_parser("selftest-mutants")
    smu.add_argument("ids", nargs="*")
    smu.add_argument("--tier", default=None)
    smu.set_defaults(fn=lambda a: importlib.import_module("mdsim.selftest").mutants(a))
    args = ap.parse_args(argv)
    try:
        return int(args.fn(args) or 0)
    except KeyboardInterrupt:
        return 2
    except Exception:  # noqa: BLE001
        import traceback

        print("HARNESS-ERROR:", traceback.format_exc()[-4000:], flush=True)
        return 2


if __name__ == "__main__":
    sys.exit(main())
