"""S-RNG: owned randomness (DESIGN 2.3).

`random.randint/choice` and `numpy.random.randint/choice/rand` are looked up as module attributes at call
time by the library, so the seam is a monkeypatch that lives only inside a simulated run.  Every call is an
event `(site, api, domain) -> value`; the list of drawn values *is* the schedule of a randomised algorithm.

modes
  owned     values chosen by per-site policies picked from the run PRNG (swarm); every value is checked to be
            in the support of the real API, so the execution is one an ideal RNG could produce
  scripted  values popped from a recorded list (replay / minimisation); exhausted or illegal -> smallest legal
  real      seam not installed; the real global RNGs are seeded from the run seed ("seeded-real" twin)
Signatures the shim does not model fall through to the real (seeded) global RNG and are logged as such.
"""

from __future__ import annotations

import math
import random
import sys

import numpy as np

INT_POLICIES = ["uniform", "uniform", "first", "last", "repeat", "pattern", "pattern", "mid"]
FLOAT_POLICIES = ["uniform", "uniform", "zero", "max", "mix", "mix"]
ONE_MINUS = math.nextafter(1.0, 0.0)


class DrawBudgetExceeded(Exception):
    pass


class SimRNG:
    def __init__(self, seed: int, mode: str = "owned", script: list | None = None, special_floats=(), soft_budget: int = 4000, hard_budget: int = 400000, force_policy: str | None = None):
        self.prng = random.Random(seed)
        self.mode = mode
        self.script = list(script) if script is not None else None
        self.pos = 0
        self.special_floats = [float(x) for x in special_floats if 0.0 <= float(x) < 1.0]
        self.soft_budget = soft_budget
        self.hard_budget = hard_budget
        self.force_policy = force_policy
        self.site_policy: dict = {}
        self.site_state: dict = {}
        self.draws: list = []  # recorded schedule: ints, or ["f", [floats as hex]]
        self.n_calls = 0
        self.n_nonuniform = 0
        self.n_fallthrough = 0
        self.n_exact_zero = 0
        self.policies_used: set = set()
        self._saved = None
        self._real = {}

    # ---- install / remove -------------------------------------------------------------
    def __enter__(self):
        self._real = {
            ("random", "randint"): random.randint,
            ("random", "choice"): random.choice,
            ("np", "randint"): np.random.randint,
            ("np", "choice"): np.random.choice,
            ("np", "rand"): np.random.rand,
        }
        random.randint = self.py_randint
        random.choice = self.py_choice
        np.random.randint = self.np_randint
        np.random.choice = self.np_choice
        np.random.rand = self.np_rand
        return self

    def __exit__(self, *a):
        random.randint = self._real[("random", "randint")]
        random.choice = self._real[("random", "choice")]
        np.random.randint = self._real[("np", "randint")]
        np.random.choice = self._real[("np", "choice")]
        np.random.rand = self._real[("np", "rand")]
        return False

    # ---- core draw primitives ------------------------------------------------------------
    def _site(self, api: str) -> str:
        f = sys._getframe(2)
        return f"{f.f_code.co_name}:{f.f_lineno}:{api}"

    def _tick(self):
        self.n_calls += 1
        if self.n_calls > self.hard_budget:
            raise DrawBudgetExceeded(f"more than {self.hard_budget} draws")

    def _policy(self, site: str, kinds: list) -> str:
        if self.n_calls > self.soft_budget:
            return "uniform"  # faults stop: adversarial policies may starve a las-vegas algorithm forever
        p = self.site_policy.get(site)
        if p is None:
            p = self.force_policy if (self.force_policy in kinds) else self.prng.choice(kinds)
            self.site_policy[site] = p
            if p == "pattern":
                self.site_state[site] = {"pat": [self.prng.random() for _ in range(self.prng.randint(2, 6))], "i": 0}
            else:
                self.site_state[site] = {"prev": 0}
        return p

    def _int(self, n: int, site: str) -> int:
        "choose an index in range(n), n >= 1"
        self._tick()
        if self.mode == "scripted":
            v = 0
            if self.pos < len(self.script):
                s = self.script[self.pos]
                if isinstance(s, int) and 0 <= s < n:
                    v = s
            self.pos += 1
            self.draws.append(v)
            return v
        pol = self._policy(site, INT_POLICIES)
        st = self.site_state.get(site, {})
        if pol == "uniform":
            v = self.prng.randrange(n)
        elif pol == "first":
            v = 0
        elif pol == "last":
            v = n - 1
        elif pol == "mid":
            v = n // 2
        elif pol == "repeat":
            v = st["prev"] if (st["prev"] < n and self.prng.random() < 0.85) else self.prng.randrange(n)
        elif pol == "pattern":
            v = min(n - 1, int(st["pat"][st["i"] % len(st["pat"])] * n))
            st["i"] += 1
            if self.prng.random() < 0.05:  # occasional escape so patterns cannot cycle forever
                v = self.prng.randrange(n)
        else:  # pragma: no cover
            v = self.prng.randrange(n)
        if "prev" in st:
            st["prev"] = v
        if pol != "uniform":
            self.n_nonuniform += 1
        self.policies_used.add(pol)
        self.draws.append(v)
        return v

    def _floats(self, count: int, site: str) -> list:
        self._tick()
        if self.mode == "scripted":
            vals = [0.0] * count
            if self.pos < len(self.script):
                s = self.script[self.pos]
                if isinstance(s, list) and len(s) == 2 and s[0] == "f":
                    for i, h in enumerate(s[1][:count]):
                        try:
                            x = float.fromhex(h)
                        except Exception:
                            x = 0.0
                        vals[i] = x if 0.0 <= x < 1.0 else 0.0
            self.pos += 1
        else:
            pol = self._policy(site, FLOAT_POLICIES)
            specials = [0.0, ONE_MINUS]
            for p in self.special_floats:
                specials += [p, math.nextafter(p, 0.0), math.nextafter(p, 1.0)]
            specials = [x for x in specials if 0.0 <= x < 1.0]
            if pol == "uniform":
                vals = [self.prng.random() for _ in range(count)]
            elif pol == "zero":
                vals = [0.0] * count
            elif pol == "max":
                vals = [ONE_MINUS] * count
            else:
                vals = [self.prng.choice(specials) if self.prng.random() < 0.5 else self.prng.random() for _ in range(count)]
            if pol != "uniform":
                self.n_nonuniform += 1
            self.policies_used.add("f-" + pol)
        self.n_exact_zero += sum(1 for x in vals if x == 0.0)
        self.draws.append(["f", [float(x).hex() for x in vals]])
        return vals

    def _fall(self, key, *a, **kw):
        self.n_fallthrough += 1
        self.draws.append(["fall", key[1]])
        if self.mode == "scripted":
            self.pos += 1
        return self._real[key](*a, **kw)

    # ---- stdlib random ---------------------------------------------------------------------
    def py_randint(self, a, b):
        if not (isinstance(a, int) and isinstance(b, int)) or b < a:
            return self._fall(("random", "randint"), a, b)
        return a + self._int(b - a + 1, self._site("py.randint"))

    def py_choice(self, seq):
        n = len(seq)
        if n == 0:
            return self._fall(("random", "choice"), seq)
        return seq[self._int(n, self._site("py.choice"))]

    # ---- numpy legacy global --------------------------------------------------------------------
    def np_randint(self, low, high=None, size=None, dtype=int):
        key = ("np", "randint")
        if dtype is not int:
            return self._fall(key, low, high, size, dtype)
        if high is None:
            low, high = 0, low
        lo = np.asarray(low)
        hi = np.asarray(high)
        if lo.dtype.kind not in "iu" or hi.dtype.kind not in "iu":
            return self._fall(key, low, high, size, dtype)
        if np.any(hi <= lo):
            return self._fall(key, low, high, size, dtype)  # the real API raises its own ValueError
        site = self._site("np.randint")
        if size is None and lo.ndim == 0 and hi.ndim == 0:
            return int(lo) + self._int(int(hi) - int(lo), site)
        try:
            shape = np.broadcast_shapes(lo.shape, hi.shape, (size,) if isinstance(size, int) else tuple(size) if size is not None else ())
        except Exception:
            return self._fall(key, low, high, size, dtype)
        if size is not None and tuple(shape) != ((size,) if isinstance(size, int) else tuple(size)):
            return self._fall(key, low, high, size, dtype)
        lo_b = np.broadcast_to(lo, shape)
        hi_b = np.broadcast_to(hi, shape)
        out = np.empty(shape, dtype=np.int64)
        for idx in np.ndindex(*shape):
            out[idx] = int(lo_b[idx]) + self._int(int(hi_b[idx]) - int(lo_b[idx]), site)
        return out

    def np_choice(self, a, size=None, replace=True, p=None):
        key = ("np", "choice")
        if p is not None or not isinstance(a, (int, np.integer)) or a <= 0:
            return self._fall(key, a, size, replace, p)
        n = int(a)
        site = self._site("np.choice")
        if size is None:
            return self._int(n, site)
        if not isinstance(size, (int, np.integer)):
            return self._fall(key, a, size, replace, p)
        k = int(size)
        if replace:
            return np.array([self._int(n, site) for _ in range(k)], dtype=np.int64)
        if k > n:
            return self._fall(key, a, size, replace, p)  # real API raises "Cannot take a larger sample..."
        pool = list(range(n))
        out = []
        for _ in range(k):
            out.append(pool.pop(self._int(len(pool), site)))
        return np.array(out, dtype=np.int64)

    def np_rand(self, *shape):
        if not all(isinstance(s, (int, np.integer)) and s >= 0 for s in shape):
            return self._fall(("np", "rand"), *shape)
        site = self._site("np.rand")
        count = 1
        for s in shape:
            count *= int(s)
        vals = self._floats(count, site)
        if not shape:
            return float(vals[0])
        return np.array(vals, dtype=np.float64).reshape(tuple(int(s) for s in shape))

    # ---- reporting --------------------------------------------------------------------------------
    def stats(self) -> dict:
        return {
            "rng_calls": self.n_calls,
            "rng_nonuniform": self.n_nonuniform,
            "rng_fallthrough": self.n_fallthrough,
            "rng_exact_zero": self.n_exact_zero,
        }


def seed_real(seed: int):
    "seeded-real configuration: the library's own RNGs, seeded from the run seed"
    random.seed(seed)
    np.random.seed(seed % (2**32))
