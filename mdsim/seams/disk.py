"""S-DISK and S-CLOCK seams (DESIGN 2.3).

`zanj.zanj.zipfile` and `zanj.loading.zipfile` are replaced by a namespace identical to `zipfile` except that
`ZipFile(path, mode)` hands the *real* `zipfile.ZipFile` a `FaultyFile`.  All zip / deflate / CRC / JSON / npy
logic therefore runs unmodified.  Every open(truncate), write, read of the archive file is a numbered event at
which a fault plan may fire.

Write sessions are kept in memory as a write log; the post-session (or post-crash) image is *computed from the
log* and materialised on the real scratch filesystem, so that `Path.exists()` and a later pristine process see it.
"""

from __future__ import annotations

import errno
import gc
import io
import os
import time as _real_time
import zipfile as _real_zipfile


class SimCrash(BaseException):
    "the simulated process dies here (kill -9 / power loss): nothing after this point reaches the disk"


# --------------------------------------------------------------------------------------------
# image arithmetic (pure)
# --------------------------------------------------------------------------------------------
def apply_writes(writes, keep=None, upto=None, torn=None, base: bytes = b"") -> bytes:
    """writes: list of (offset, bytes). keep: indices that persist (None = all); upto: only writes < upto;
    torn: (k, j) first j bytes of write k persist additionally. Holes read as zeros."""
    img = bytearray(base)
    n = len(writes) if upto is None else min(upto, len(writes))
    for i in range(n):
        if keep is not None and i not in keep:
            continue
        off, data = writes[i]
        end = off + len(data)
        if end > len(img):
            img.extend(b"\0" * (end - len(img)))
        img[off:end] = data
    if torn is not None:
        k, j = torn
        off, data = writes[k]
        data = data[:j]
        end = off + len(data)
        if end > len(img):
            img.extend(b"\0" * (end - len(img)))
        img[off:end] = data
    return bytes(img)


# --------------------------------------------------------------------------------------------
# the simulated disk
# --------------------------------------------------------------------------------------------
class SimDisk:
    """fault plan (write side), one of:
         None
         {"kind": "crash", "event": k}            die before write k        (k == -1: before the truncating open)
         {"kind": "torn", "event": k, "bytes": j}  die inside write k
         {"kind": "eio-w", "event": k}             write k raises EIO once; process lives on
         {"kind": "enospc", "event": k}            write k and every later write raise ENOSPC
         {"kind": "lost", "lost": [i, ...]}        session completes; listed writes never reach the disk (no fsync)
       read side:
         {"kind": "eio-r", "event": k}             read k raises EIO
       The plan applies to the `session`-th write (or read) session opened on this disk (default 0)."""

    def __init__(self, plan: dict | None = None, record_data: bool = False):
        self.plan = plan
        self.record_data = record_data
        self.sessions: list = []  # write sessions
        self.read_sessions: list = []
        self.open_files: list = []
        self.fired: dict = {}
        self.n_write_sessions = 0
        self.n_read_sessions = 0

    def fire(self, kind):
        self.fired[kind] = self.fired.get(kind, 0) + 1

    def open(self, path, mode: str):
        path = os.fspath(path)
        if mode == "r":
            idx = self.n_read_sessions
            self.n_read_sessions += 1
            plan = self.plan if (self.plan and self.plan.get("kind") == "eio-r" and self.plan.get("session", 0) == idx) else None
            f = FaultyReadFile(self, path, plan)
            self.read_sessions.append(f)
            self.open_files.append(f)
            return f
        if mode in ("w", "x"):
            idx = self.n_write_sessions
            self.n_write_sessions += 1
            plan = self.plan if (self.plan and self.plan.get("kind") in ("crash", "torn", "eio-w", "enospc", "lost") and self.plan.get("session", 0) == idx) else None
            f = FaultyWriteFile(self, path, plan, exclusive=(mode == "x"))
            self.sessions.append(f)
            self.open_files.append(f)
            return f
        raise NotImplementedError(f"SimDisk: zip mode {mode!r} is not used by the library")

    def finalize(self):
        """end of the simulated process: destructors run (as CPython would run them), still-open live files
        are flushed as the OS would on exit; dead files stay dead."""
        gc.collect()
        for f in list(self.open_files):
            if isinstance(f, FaultyWriteFile) and not f.closed_:
                f.close()

    def trace(self):
        "write trace of every session: list of [offset, len] (+ data if recorded)"
        out = []
        for s in self.sessions:
            out.append({"path": os.path.basename(s.path), "writes": [[o, len(d)] for o, d in s.writes], "dead": s.dead})
        return out


class FaultyWriteFile(io.RawIOBase):
    def __init__(self, disk: SimDisk, path: str, plan, exclusive=False):
        super().__init__()
        self.disk = disk
        self.path = path
        self.plan = plan
        self.dead = False
        self.closed_ = False
        self.pos = 0
        self.size = 0
        self.writes: list = []  # (offset, bytes) in issue order
        self.failed: set = set()
        self.enospc = False
        self.mode = "wb"
        try:
            with open(path, "rb") as f:
                self.before = f.read()
            existed = True
        except FileNotFoundError:
            self.before = None
            existed = False
        if exclusive and existed:
            raise FileExistsError(path)
        if plan and plan["kind"] == "crash" and plan["event"] == -1:
            self.disk.fire("crash")
            self.dead = True
            raise SimCrash("before truncating open")
        # the truncating open itself (as io.open(path, 'w+b') does); parent directory must exist
        with open(path, "wb"):
            pass

    # -- io protocol ------------------------------------------------------------------------------
    def writable(self):
        return True

    def readable(self):
        return True

    def seekable(self):
        return True

    def tell(self):
        return self.pos

    def seek(self, off, whence=0):
        if whence == 0:
            self.pos = off
        elif whence == 1:
            self.pos += off
        else:
            self.pos = self.size + off
        return self.pos

    def flush(self):
        pass

    def _current(self) -> bytes:
        keep = {i for i in range(len(self.writes)) if i not in self.failed}
        return apply_writes(self.writes, keep=keep)

    def read(self, n=-1):
        img = self._current()
        data = img[self.pos :] if n is None or n < 0 else img[self.pos : self.pos + n]
        self.pos += len(data)
        return data

    def readinto(self, b):
        data = self.read(len(b))
        b[: len(data)] = data
        return len(data)

    def truncate(self, size=None):  # not used by zipfile in 'w' mode; keep semantics simple
        raise NotImplementedError

    def write(self, data):
        data = bytes(data)
        if self.dead:
            return len(data)  # a killed process issues no further writes
        k = len(self.writes)
        plan = self.plan
        if plan:
            kind = plan["kind"]
            if kind == "crash" and plan["event"] == k:
                self.disk.fire("crash")
                self._die(apply_writes(self.writes))
            if kind == "torn" and plan["event"] == k:
                self.disk.fire("torn")
                j = max(0, min(len(data), plan["bytes"]))
                ws = self.writes + [(self.pos, data)]
                self._die(apply_writes(ws, upto=k, torn=(k, j)))
            if kind == "eio-w" and plan["event"] == k:
                self.disk.fire("eio-w")
                self.writes.append((self.pos, data))
                self.failed.add(k)
                raise OSError(errno.EIO, "simulated I/O error")
            if kind == "enospc" and k >= plan["event"]:
                self.disk.fire("enospc")
                self.writes.append((self.pos, data))
                self.failed.add(k)
                raise OSError(errno.ENOSPC, "simulated: no space left on device")
        self.writes.append((self.pos, data))
        self.pos += len(data)
        self.size = max(self.size, self.pos)
        return len(data)

    def _die(self, image: bytes):
        self.dead = True
        self._materialise(image)
        raise SimCrash(f"crash in write session on {os.path.basename(self.path)}")

    def _materialise(self, image: bytes):
        with open(self.path, "wb") as f:
            f.write(image)

    def close(self):
        if self.closed_:
            return
        self.closed_ = True
        if self in self.disk.open_files:
            self.disk.open_files.remove(self)
        if self.dead:
            return
        keep = {i for i in range(len(self.writes)) if i not in self.failed}
        if self.plan and self.plan["kind"] == "lost":
            lost = set(self.plan["lost"])
            if lost & keep:
                self.disk.fire("lost")
            keep -= lost
        self._materialise(apply_writes(self.writes, keep=keep))

    @property
    def closed(self):
        return self.closed_

    def __del__(self):
        pass


class FaultyReadFile(io.RawIOBase):
    def __init__(self, disk: SimDisk, path: str, plan):
        super().__init__()
        self.disk = disk
        self.path = path
        self.plan = plan
        self.f = open(path, "rb")  # FileNotFoundError / IsADirectoryError propagate like io.open would
        self.n_reads = 0
        self.mode = "rb"
        self.closed_ = False

    def readable(self):
        return True

    def seekable(self):
        return True

    def tell(self):
        return self.f.tell()

    def seek(self, off, whence=0):
        return self.f.seek(off, whence)

    def read(self, n=-1):
        k = self.n_reads
        self.n_reads += 1
        if self.plan and self.plan["event"] == k:
            self.disk.fire("eio-r")
            raise OSError(errno.EIO, "simulated read error")
        return self.f.read(n)

    def readinto(self, b):
        data = self.read(len(b))
        b[: len(data)] = data
        return len(data)

    def close(self):
        if not self.closed_:
            self.closed_ = True
            self.f.close()
            if self in self.disk.open_files:
                self.disk.open_files.remove(self)

    @property
    def closed(self):
        return self.closed_


# --------------------------------------------------------------------------------------------
# zipfile namespace shim
# --------------------------------------------------------------------------------------------
def _make_zipfile_cls(disk: SimDisk):
    class SimZipFile(_real_zipfile.ZipFile):
        def __init__(self, file, mode="r", *a, **kw):
            self._sim_fobj = None
            if isinstance(file, (str, os.PathLike)):
                fobj = disk.open(file, mode)
                self._sim_fobj = fobj
                try:
                    super().__init__(fobj, mode, *a, **kw)
                except BaseException:
                    if not isinstance(fobj, FaultyWriteFile) or not fobj.dead:
                        fobj.close()
                    raise
                self.filename = os.fspath(file)
            else:
                super().__init__(file, mode, *a, **kw)

        def close(self):
            try:
                super().close()
            finally:
                if self._sim_fobj is not None:
                    self._sim_fobj.close()

    return SimZipFile


class _ZipNamespace:
    def __init__(self, disk: SimDisk):
        self.ZipFile = _make_zipfile_cls(disk)

    def __getattr__(self, name):
        return getattr(_real_zipfile, name)


class SimClock:
    """seed-derived instant that advances by seed-derived steps on every reading (may jump backwards);
    kept inside the range a zip header can encode"""

    LO = 347155200.0  # 1981-01-01
    HI = 4102444800.0  # 2100-01-01

    def __init__(self, t0: float, steps: list):
        self.t = float(t0)
        self.steps = list(steps) or [0.0]
        self.i = 0
        self.readings = 0

    def time(self):
        v = self.t
        self.readings += 1
        self.t = min(self.HI, max(self.LO, self.t + self.steps[self.i % len(self.steps)]))
        self.i += 1
        return v

    def localtime(self, secs=None):
        return _real_time.gmtime(self.time() if secs is None else secs)

    def __getattr__(self, name):
        return getattr(_real_time, name)


class Installed:
    "context manager: install S-DISK (+ S-CLOCK) for the duration of a simulated process"

    def __init__(self, disk: SimDisk, clock: SimClock | None):
        self.disk = disk
        self.clock = clock

    def __enter__(self):
        import zanj.loading
        import zanj.zanj

        self._saved = (zanj.zanj.zipfile, zanj.loading.zipfile, zanj.zanj.time, _real_zipfile.time)
        ns = _ZipNamespace(self.disk)
        zanj.zanj.zipfile = ns
        zanj.loading.zipfile = ns
        if self.clock is not None:
            zanj.zanj.time = self.clock
            _real_zipfile.time = self.clock
        return self.disk

    def __exit__(self, *a):
        import zanj.loading
        import zanj.zanj

        zanj.zanj.zipfile, zanj.loading.zipfile, zanj.zanj.time, _real_zipfile.time = self._saved
        return False
