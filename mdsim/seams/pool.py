"""S-POOL: simulated multiprocessing worker pool (DESIGN 2.3).

`maze_dataset.dataset.maze_dataset.multiprocessing` is replaced by a namespace whose `Pool` is a `SimPool` and
whose `current_process()` returns the simulated worker.  Each simulated worker is a *context* holding its own copy
of the process-global state a real child process would own:

  stdlib `random` state   fork: re-seeded from simulator-chosen entropy (CPython does this in every forked child);
                          spawn: the state right after `import maze_dataset` (random.seed(42))
  numpy legacy global     fork: inherited from the parent at (re)fork time; spawn: simulator-chosen entropy
  _GLOBAL_WORKER_CONFIG   fork: whatever the parent had (possibly a stale config, possibly undefined); spawn: undefined
  other module globals    every data-valued global (dict / list / set / array / Generator / scalar / config object; not functions,
                          classes, modules or typing objects) of the library modules listed in ISOLATED_MODULES: a worker owns a
                          deep copy taken at (re)fork time (spawn: of the state the process had when the seam was installed),
                          names it creates stay its own, and nothing it rebinds or mutates reaches the parent or another
                          worker - as in real child processes. `functools` caches are not data and stay shared (DESIGN 10.6).
  identity                parent-global counter that keeps growing across pools and across recycled workers
  base identity           the simulated process itself may be a worker of a pool the caller runs (`base_identity=(k,)`):
                          `current_process()._identity` is then (k,) outside any library pool, and creating a pool raises
                          like CPython does for daemonic processes

initargs, task arguments and results cross the process boundary through a real pickle round trip.  Workers share
nothing, so task granularity is the complete interleaving space: the schedule is the task->worker assignment plus
the recycle points implied by maxtasksperchild.
"""

from __future__ import annotations

import multiprocessing as _real_mp
import pickle
import random

import numpy as np

_MISSING = object()


class _Proc:
    def __init__(self, identity=()):
        self._identity = tuple(identity)
        self.name = "MainProcess" if not identity else "SimPoolWorker-%d" % identity[-1]


class PoolWorld:
    """state shared by every SimPool created in one simulated parent process"""

    def __init__(self, seed: int, start_method: str = "fork", cpu_count: int = 4, identity_start: int = 1, assign: list | None = None, assign_policy: str = "uniform", base_identity=()):
        self.prng = random.Random(seed)
        # the simulated process may itself be a worker of a pool the *caller* runs (identity (k,)); such a (daemonic) process
        # cannot start a pool of its own
        self.base_identity = tuple(base_identity)
        self.isolate = __import__("os").environ.get("MDSIM_POOL_ISOLATE", "1") != "0"  # "0": the pre-isolation stub (self-test of the seam only)
        self.import_time_data: dict = {}
        self.start_method = start_method
        self.cpu_count = cpu_count
        self.next_identity = identity_start
        self.current = _Proc(self.base_identity)
        self.assign_script = list(assign) if assign is not None else None
        self.assign_pos = 0
        self.assign_policy = assign_policy
        self.log: list = []  # recorded schedule
        self.pools = 0
        self.workers_spawned = 0
        self.recycles = 0
        self.max_workers_used = 0

    def pick(self, n: int, last: int) -> int:
        if self.assign_script is not None:
            v = self.assign_script[self.assign_pos] % n if self.assign_pos < len(self.assign_script) else 0
            self.assign_pos += 1
            return v
        pol = self.assign_policy
        if pol == "uniform":
            return self.prng.randrange(n)
        if pol == "round-robin":
            return (last + 1) % n
        if pol == "one-worker":
            return 0
        if pol == "sticky":
            return last if self.prng.random() < 0.7 else self.prng.randrange(n)
        if pol == "last-worker":
            return n - 1
        return self.prng.randrange(n)


class _Worker:
    def __init__(self, identity, py_state, np_state, gwc, data=None):
        self.identity = identity
        self.py_state = py_state
        self.np_state = np_state
        self.gwc = gwc
        self.data = data  # the worker's own module-level data (None: isolation switched off)
        self.done = 0


def _mdm():
    import maze_dataset.dataset.maze_dataset as mdm

    return mdm


ISOLATED_MODULES = (
    "maze_dataset.dataset.maze_dataset",
    "maze_dataset.dataset.dataset",
    "maze_dataset.dataset.collected_dataset",
    "maze_dataset.generation.generators",
    "maze_dataset.maze.lattice_maze",
)
_DATA_TYPES = (dict, list, set, tuple, np.ndarray, np.random.Generator, int, float, str, bool, bytes, type(None))


def _is_data(name: str, val) -> bool:
    if name.startswith("__") or name == "multiprocessing":
        return False
    if isinstance(val, _DATA_TYPES):
        return True
    return type(val).__name__ in ("MazeDatasetConfig", "MazeDatasetCollectionConfig", "RandomState")


def _module_data() -> dict:
    "current data-valued globals of the isolated modules, by reference: {(module, name): object}"
    import sys

    out = {}
    for mn in ISOLATED_MODULES:
        mod = sys.modules.get(mn)
        if mod is None:
            continue
        for name, val in list(vars(mod).items()):
            if _is_data(name, val):
                out[(mn, name)] = val
    return out


def _copy_data(d: dict) -> dict:
    "one deep copy of everything (objects reachable under two names stay one object in the copy)"
    import copy

    try:
        return copy.deepcopy(d)
    except Exception:  # noqa: BLE001 - fall back to item by item; what cannot be copied is left shared
        out = {}
        for k, v in d.items():
            try:
                out[k] = copy.deepcopy(v)
            except Exception:  # noqa: BLE001
                out[k] = v
        return out


def _install_data(d: dict):
    "make the isolated modules hold exactly the data globals in d (others of data type are removed)"
    import sys

    cur = _module_data()
    for (mn, name) in cur:
        if (mn, name) not in d:
            try:
                delattr(sys.modules[mn], name)
            except AttributeError:
                pass
    for (mn, name), v in d.items():
        mod = sys.modules.get(mn)
        if mod is not None:
            setattr(mod, name, v)


class SimPool:
    def __init__(self, world: PoolWorld, processes=None, initializer=None, initargs=(), maxtasksperchild=None, context=None):
        self.world = world
        if world.base_identity:
            raise AssertionError("daemonic processes are not allowed to have children")
        if processes is None:
            processes = world.cpu_count
        if processes < 1:
            raise ValueError("Number of processes must be at least 1")
        if maxtasksperchild is not None and (not isinstance(maxtasksperchild, int) or maxtasksperchild <= 0):
            raise ValueError("maxtasksperchild must be a positive int or None")
        self.n = processes
        self.initializer = initializer
        self.initargs_pickled = pickle.dumps(tuple(initargs))
        self.maxtasks = maxtasksperchild
        self.closed = False
        world.pools += 1
        world.log.append(["pool", processes, maxtasksperchild, world.start_method, world.next_identity])
        self.workers = [self._spawn() for _ in range(processes)]

    # ---- process-global state swapping ---------------------------------------------------------------
    def _parent_snapshot(self):
        mdm = _mdm()
        return (random.getstate(), np.random.get_state(), getattr(mdm, "_GLOBAL_WORKER_CONFIG", _MISSING))

    def _install(self, py_state, np_state, gwc):
        mdm = _mdm()
        random.setstate(py_state)
        np.random.set_state(np_state)
        if gwc is _MISSING:
            if hasattr(mdm, "_GLOBAL_WORKER_CONFIG"):
                del mdm._GLOBAL_WORKER_CONFIG
        else:
            mdm._GLOBAL_WORKER_CONFIG = gwc

    def _in_worker(self, w: _Worker, fn):
        parent = self._parent_snapshot()
        parent_data = _module_data() if w.data is not None else None
        if w.data is not None:
            _install_data(w.data)
        self._install(w.py_state, w.np_state, w.gwc)
        self.world.current = _Proc(w.identity)
        try:
            return fn()
        finally:
            w.py_state, w.np_state, w.gwc = self._parent_snapshot()
            if w.data is not None:
                w.data = _module_data()
                _install_data(parent_data)
            self.world.current = _Proc(self.world.base_identity)
            self._install(*parent)

    def _spawn(self) -> _Worker:
        world = self.world
        ident = (world.next_identity,)
        world.next_identity += 1
        world.workers_spawned += 1
        entropy = world.prng.getrandbits(64)
        py0, np0, gwc0 = self._parent_snapshot()
        if world.start_method == "fork":
            r = random.Random(entropy)
            py_state = r.getstate()  # CPython: random.seed() from OS entropy in the forked child
            w = _Worker(ident, py_state, np0, gwc0, _copy_data(_module_data()) if world.isolate else None)
        else:  # spawn: fresh interpreter that has just imported maze_dataset
            r = random.Random(42)
            rs = np.random.RandomState(entropy % (2**32))
            data = None
            if world.isolate:
                data = _copy_data(world.import_time_data)
                data.pop(("maze_dataset.dataset.maze_dataset", "_GLOBAL_WORKER_CONFIG"), None)
            w = _Worker(ident, r.getstate(), rs.get_state(), _MISSING, data)
        world.log.append(["spawn", ident[0], entropy])
        if self.initializer is not None:
            args = pickle.loads(self.initargs_pickled)
            self._in_worker(w, lambda: self.initializer(*args))
        return w

    # ---- the API the library uses -----------------------------------------------------------------------
    def imap(self, func, iterable, chunksize=1):
        if self.closed:
            raise ValueError("Pool not running")
        items = list(iterable)
        chunks = [items[i : i + chunksize] for i in range(0, len(items), chunksize)]
        results: list = []
        used = set()
        last = -1
        for ch in chunks:
            wi = self.world.pick(len(self.workers), last)
            last = wi
            w = self.workers[wi]
            used.add(w.identity)
            self.world.log.append(["task", len(results), w.identity[0]])
            for it in ch:
                arg = pickle.loads(pickle.dumps(it))

                def call(arg=arg):
                    try:
                        return ("ok", pickle.dumps(func(arg)))
                    except Exception as e:  # noqa: BLE001 - delivered at its position, as imap does
                        return ("exc", e)

                results.append(self._in_worker(w, call))
            w.done += 1
            if self.maxtasks is not None and w.done >= self.maxtasks:
                self.world.recycles += 1
                self.world.log.append(["recycle", w.identity[0]])
                self.workers[wi] = self._spawn()
        self.world.max_workers_used = max(self.world.max_workers_used, len(used))

        def gen():
            for kind, val in results:
                if kind == "exc":
                    raise val
                yield pickle.loads(val)

        return gen()

    def close(self):
        self.closed = True

    def terminate(self):
        self.closed = True

    def join(self):
        pass

    def __enter__(self):
        return self

    def __exit__(self, *a):
        self.terminate()
        return False


class MPNamespace:
    def __init__(self, world: PoolWorld):
        self._world = world

    def Pool(self, processes=None, initializer=None, initargs=(), maxtasksperchild=None, context=None):
        return SimPool(self._world, processes, initializer, initargs, maxtasksperchild, context)

    def current_process(self):
        return self._world.current

    def cpu_count(self):
        return self._world.cpu_count

    def __getattr__(self, name):
        return getattr(_real_mp, name)


class Installed:
    def __init__(self, world: PoolWorld):
        self.world = world

    def __enter__(self):
        mdm = _mdm()
        self._saved = mdm.multiprocessing
        if self.world.isolate:
            # stand-in for "the state right after import" that a spawned child starts from
            self.world.import_time_data = _copy_data(_module_data())
        mdm.multiprocessing = MPNamespace(self.world)
        return self.world

    def __exit__(self, *a):
        _mdm().multiprocessing = self._saved
        return False
