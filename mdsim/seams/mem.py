"""S-MEM: uninitialised memory is a source of nondeterminism the simulator must own.

The minimal serialisation formats build their padded solution arrays with `np.empty`, so the padding bytes that
reach the archive are whatever the allocator hands out: archive bytes (and, with compression, archive *length*)
differ from process to process.  Inside a simulated process `maze_dataset.dataset.maze_dataset.np` is replaced by a
proxy whose `empty()` returns memory filled from a seed-derived pattern (zeros, 0xFF, or pseudo-random garbage -
every one of them a legal outcome of real uninitialised memory); everything else is NumPy itself.
"""

from __future__ import annotations

import numpy as _np


class NPProxy:
    def __init__(self, pattern):
        self._pattern = pattern  # 0 -> zeros, 255 -> 0xFF, other int -> garbage seeded by it
        self._n = 0

    def empty(self, shape, dtype=float, order="C", **kw):
        arr = _np.empty(shape, dtype=dtype, order=order, **kw)
        self._n += 1
        if arr.size == 0:
            return arr
        if arr.dtype == _np.bool_:
            if self._pattern == 0:
                arr[...] = False
            elif self._pattern == 255:
                arr[...] = True
            else:
                arr[...] = _np.random.RandomState((self._pattern + self._n) % (2**32)).randint(0, 2, size=arr.shape).astype(_np.bool_)
            return arr
        raw = arr.view(_np.uint8).reshape(-1) if arr.flags["C_CONTIGUOUS"] else None
        if raw is None:
            arr[...] = 0
            return arr
        if self._pattern == 0:
            raw[...] = 0
        elif self._pattern == 255:
            raw[...] = 0xFF
        else:
            raw[...] = _np.random.RandomState((self._pattern + self._n) % (2**32)).randint(0, 256, size=raw.shape[0]).astype(_np.uint8)
        return arr

    def __getattr__(self, name):
        return getattr(_np, name)


class Installed:
    def __init__(self, pattern):
        self.pattern = pattern

    def __enter__(self):
        import maze_dataset.dataset.maze_dataset as mdm

        self._saved = mdm.np
        mdm.np = NPProxy(self.pattern)
        return self

    def __exit__(self, *a):
        import maze_dataset.dataset.maze_dataset as mdm

        mdm.np = self._saved
        return False
