"""Uniform-spanning-tree reference model for C19: tree enumeration, Kirchhoff edge marginals, chi-square tail.

Edges are indexed like the library's connection array: (0,i,j) = (i,j)-(i+1,j), (1,i,j) = (i,j)-(i,j+1).
"""

from __future__ import annotations

import itertools
import math

import numpy as np


def lattice_edges(r: int, c: int) -> list[tuple[int, int, int]]:
    out = []
    for i in range(r):
        for j in range(c):
            if i + 1 < r:
                out.append((0, i, j))
            if j + 1 < c:
                out.append((1, i, j))
    return out


def _ends(e, c):
    d, i, j = e
    a = i * c + j
    b = (i + 1) * c + j if d == 0 else i * c + j + 1
    return a, b


def enumerate_spanning_trees(r: int, c: int) -> list[bytes]:
    "all spanning trees, each as the bytes of its (2,r,c) bool connection array"
    E = lattice_edges(r, c)
    n = r * c
    trees = []
    for sub in itertools.combinations(E, n - 1):
        parent = list(range(n))

        def find(x):
            while parent[x] != x:
                parent[x] = parent[parent[x]]
                x = parent[x]
            return x

        acyclic = True
        for e in sub:
            a, b = _ends(e, c)
            ra, rb = find(a), find(b)
            if ra == rb:
                acyclic = False
                break
            parent[ra] = rb
        if acyclic:
            arr = np.zeros((2, r, c), dtype=np.bool_)
            for d, i, j in sub:
                arr[d, i, j] = True
            trees.append(arr.tobytes())
    return trees


def n_spanning_trees(r: int, c: int) -> int:
    "matrix-tree theorem"
    n = r * c
    if n == 1:
        return 1
    L = np.zeros((n, n))
    for e in lattice_edges(r, c):
        a, b = _ends(e, c)
        L[a, a] += 1
        L[b, b] += 1
        L[a, b] -= 1
        L[b, a] -= 1
    return int(round(np.linalg.det(L[1:, 1:])))


def edge_marginals(r: int, c: int) -> dict:
    "Kirchhoff: P(e in UST) = effective resistance between the endpoints of e"
    n = r * c
    L = np.zeros((n, n))
    E = lattice_edges(r, c)
    for e in E:
        a, b = _ends(e, c)
        L[a, a] += 1
        L[b, b] += 1
        L[a, b] -= 1
        L[b, a] -= 1
    Lp = np.linalg.pinv(L)
    out = {}
    for e in E:
        a, b = _ends(e, c)
        out[e] = float(Lp[a, a] + Lp[b, b] - 2 * Lp[a, b])
    return out


# ---- chi-square survival function (SciPy is not available in /venv) -------------------------------
def _gser(a, x):
    s = 1.0 / a
    d = s
    ap = a
    for _ in range(100000):
        ap += 1
        d *= x / ap
        s += d
        if abs(d) < abs(s) * 1e-16:
            break
    return s * math.exp(-x + a * math.log(x) - math.lgamma(a))


def _gcf(a, x):
    tiny = 1e-300
    b = x + 1 - a
    c = 1 / tiny
    d = 1 / b
    h = d
    for i in range(1, 100000):
        an = -i * (i - a)
        b += 2
        d = an * d + b
        if abs(d) < tiny:
            d = tiny
        c = b + an / c
        if abs(c) < tiny:
            c = tiny
        d = 1 / d
        de = d * c
        h *= de
        if abs(de - 1) < 1e-16:
            break
    return math.exp(-x + a * math.log(x) - math.lgamma(a)) * h


def chi2_sf(x: float, k: int) -> float:
    "P(chi2_k >= x)"
    if x <= 0:
        return 1.0
    a = k / 2.0
    xx = x / 2.0
    if xx < a + 1:
        return max(0.0, 1.0 - _gser(a, xx))
    return _gcf(a, xx)


def hoeffding_halfwidth(n: int, alpha: float) -> float:
    "two-sided: P(|mean - p| >= t) <= alpha for n iid [0,1] variables"
    return math.sqrt(math.log(2.0 / alpha) / (2.0 * n))
