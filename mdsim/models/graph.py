"""Grid-graph reference model on the raw boolean connection array. Shares no code with maze_dataset.

connection_list[0, r, c]  <=> edge (r,c)-(r+1,c)   ("down")
connection_list[1, r, c]  <=> edge (r,c)-(r,c+1)   ("right")
"""

from __future__ import annotations

from collections import deque

import numpy as np


def wellformed_errors(conn, shape) -> list[str]:
    errs = []
    if not isinstance(conn, np.ndarray):
        return [f"connection_list is {type(conn).__name__}, not ndarray"]
    if conn.dtype != np.bool_:
        errs.append(f"dtype {conn.dtype} is not bool")
    r, c = int(shape[0]), int(shape[1])
    if tuple(conn.shape) != (2, r, c):
        errs.append(f"shape {tuple(conn.shape)} != {(2, r, c)}")
        return errs
    if conn[0, r - 1, :].any():
        errs.append("a 'down' connection leaves the grid from the last row")
    if conn[1, :, c - 1].any():
        errs.append("a 'right' connection leaves the grid from the last column")
    return errs


def edges(conn) -> list[tuple[tuple[int, int], tuple[int, int]]]:
    "in-grid edges only (leaving edges are reported by wellformed_errors)"
    _, r, c = conn.shape
    out = []
    for i in range(r):
        for j in range(c):
            if conn[0, i, j] and i + 1 < r:
                out.append(((i, j), (i + 1, j)))
            if conn[1, i, j] and j + 1 < c:
                out.append(((i, j), (i, j + 1)))
    return out


def adjacency(conn) -> dict:
    _, r, c = conn.shape
    adj = {(i, j): [] for i in range(r) for j in range(c)}
    for a, b in edges(conn):
        adj[a].append(b)
        adj[b].append(a)
    return adj


def components(conn) -> list[set]:
    adj = adjacency(conn)
    seen = set()
    comps = []
    for s in adj:
        if s in seen:
            continue
        comp = {s}
        dq = deque([s])
        while dq:
            u = dq.popleft()
            for v in adj[u]:
                if v not in comp:
                    comp.add(v)
                    dq.append(v)
        seen |= comp
        comps.append(comp)
    return comps


def component_of(conn, s) -> set:
    adj = adjacency(conn)
    s = (int(s[0]), int(s[1]))
    comp = {s}
    dq = deque([s])
    while dq:
        u = dq.popleft()
        for v in adj[u]:
            if v not in comp:
                comp.add(v)
                dq.append(v)
    return comp


def bfs_dist(conn, s) -> dict:
    adj = adjacency(conn)
    s = (int(s[0]), int(s[1]))
    dist = {s: 0}
    dq = deque([s])
    while dq:
        u = dq.popleft()
        for v in adj[u]:
            if v not in dist:
                dist[v] = dist[u] + 1
                dq.append(v)
    return dist


def degrees(conn) -> dict:
    return {k: len(v) for k, v in adjacency(conn).items()}


def n_lattice_edges(r: int, c: int) -> int:
    return r * (c - 1) + c * (r - 1)


def is_spanning_tree(conn) -> tuple[bool, str]:
    _, r, c = conn.shape
    e = edges(conn)
    comps = components(conn)
    if len(e) != r * c - 1:
        return False, f"{len(e)} connections, expected {r * c - 1}"
    if len(comps) != 1:
        return False, f"{len(comps)} connected components"
    return True, ""


def path_errors(conn, sol) -> list[str]:
    "solution: (k,2) int array. returns reasons why it is not a simple path along connections inside the grid"
    errs = []
    sol = np.asarray(sol)
    if sol.ndim != 2 or sol.shape[1] != 2 or sol.shape[0] < 1:
        return [f"solution shape {sol.shape}"]
    _, r, c = conn.shape
    cells = [(int(a), int(b)) for a, b in sol]
    for a, b in cells:
        if not (0 <= a < r and 0 <= b < c):
            errs.append(f"cell {(a, b)} outside the grid")
            return errs
    if len(set(cells)) != len(cells):
        errs.append("a cell is visited twice")
    adj = adjacency(conn)
    for u, v in zip(cells, cells[1:]):
        if v not in adj[u]:
            errs.append(f"step {u}->{v} does not follow a connection")
            break
    return errs
