"""Regenerates /verif/MANIFEST.json from the property modules that exist (python mdsim/manifest.py)."""

from __future__ import annotations

import json
import os
import sys

sys.path.insert(0, os.path.dirname(os.path.dirname(os.path.abspath(__file__))))

VERIF = os.path.dirname(os.path.dirname(os.path.abspath(__file__)))

NA = {
    "C02": "find_shortest_path is a deterministic pure function of (connection array, start, end): no schedule, clock, fault, I/O or shared state for a simulator to own; deciding it is input enumeration, a different technique (DESIGN 5).",
    "C06": "to_tokens is a function of (tokenizer, maze) up to edge order/orientation shuffles that the property itself quotients out; nothing else varies between executions (DESIGN 5).",
    "C07": "same as C06 for the legacy path; parsing is a pure function of the token list (DESIGN 5).",
    "C09": "==, hash and constructor validation are pure functions of their operands; no schedule/fault/history dimension (DESIGN 5).",
    "C10": "pixel/ASCII rendering and parsing are pure functions of the maze / image (DESIGN 5).",
    "C13": "graph queries are pure functions of the connection array and the queried cells (DESIGN 5).",
    "C14": "the vocabulary is a static table and the codecs are pure functions of the token sequence (DESIGN 5).",
    "C16": "collection indexing is pure arithmetic over member lengths (DESIGN 5).",
    "C17": "rasterisation is a pure function of (maze, three flags) (DESIGN 5).",
    "C20": "plotting is a pure function of (maze, arguments) into an in-memory figure (DESIGN 5).",
}

LEVEL_TEXT = {
    "C01": (
        "Seeded search over the generator's own random choices: every draw of random.*/numpy.random.* made by a generator is owned by the simulator (uniform, adversarial and boundary-value policies per call site, e.g. rand()==0.0 exactly), twin runs use the real seeded RNGs; each returned array is judged by a union-find graph model. Grids include long thin shapes crossing the int8/uint8 coordinate ranges and 16-20-cell sides; arguments are varied in how the caller spells them (shape as narrow-typed array / list / tuple or as ONE array the caller rewrites in place for every grid of a batch process, caller-owned buffers overwritten after the call); a violating run is reported together with the runs that preceded it in its process. Sampling, not proof.",
        "Trusted: NumPy array semantics, the SimRNG model of the five intercepted RNG entry points (each value checked to lie in the real API's support; a real-RNG twin runs in every batch).",
    ),
}


def build():
    import importlib

    checks = []
    claimed = []
    for pid in ["C01", "C03", "C04", "C05", "C08", "C11", "C12", "C15", "C18", "C19"]:
        path = os.path.join(VERIF, "mdsim", "props", pid.lower() + ".py")
        if not os.path.exists(path):
            continue
        mod = importlib.import_module("mdsim.props." + pid.lower())
        if not getattr(mod, "REGISTER", True):
            continue
        claimed.append(pid)
        text, note = getattr(mod, "LEVEL_TEXT", None) or LEVEL_TEXT.get(pid, ("", ""))
        checks.append(
            {
                "property_id": pid,
                "quick_cmd": f"./check run {pid} --tier quick",
                "thorough_cmd": f"./check run {pid} --tier thorough",
                "evidence_file": f"/verif/evidence/{pid}.json",
                "replay_cmd_template": "./check replay {path}",
                "engine": "mdsim",
                "level_claimed": {"category": mod.LEVEL, "text": text, "design_ref": f"DESIGN.md section 3 ({pid})"},
                "level_note": note,
                "technique": mod.TECHNIQUE,
            }
        )
    na = [{"property_id": k, "reason": v} for k, v in sorted(NA.items())]
    for pid in ["C01", "C03", "C04", "C05", "C08", "C11", "C12", "C15", "C18", "C19"]:
        if pid not in claimed:
            na.append({"property_id": pid, "reason": "simulation target per DESIGN.md section 3, but its check is not registered yet (under construction); not claimed until it is."})
    na.sort(key=lambda d: d["property_id"])
    man = {
        "version": 1,
        "setup_cmd": "./check setup",
        "hooks": {
            "guard": "MAZE_DATASET_VERIF",
            "enable": "no source hooks: every seam (RNG, worker pool, zip/file storage, clock, process/hash seed) is a monkeypatch installed by /verif/mdsim inside its own child processes; the harness sets MAZE_DATASET_VERIF=1 only in those children",
            "baseline_off_cmd": "cd /repo && /venv/bin/python -m pytest -ra -q -p no:cacheprovider --timeout=900 --continue-on-collection-errors",
            "source_commits": [],
            "add_only": True,
        },
        "engines": [
            {
                "name": "mdsim",
                "path": "/verif/mdsim",
                "serves_properties": claimed,
                "kind_free_text": "deterministic simulator written for this task: warm fork servers (one interpreter per PYTHONHASHSEED), pristine forked child per simulated process lifetime, seams S-RNG / S-POOL / S-DISK / S-CLOCK / S-PROC, reference-model oracles, delta-debugging minimiser, replay files",
            }
        ],
        "checks": checks,
        "notes": "Every check: exit 0 = held on everything explored; exit 1 + 'VIOLATION property=<id> replay=<path>' = replayable violation; exit 2 + 'HARNESS-ERROR' = the harness itself failed (never a verdict). VERIF_SEED selects the root seed. Known findings: /verif/known_findings.json.",
        "not_applicable": na,
    }
    return man


if __name__ == "__main__":
    man = build()
    with open(os.path.join(VERIF, "MANIFEST.json"), "w") as f:
        json.dump(man, f, indent=1)
    print("claimed:", [c["property_id"] for c in man["checks"]])
