"""C01 — generators emit well-formed lattice graphs; DFS and Wilson emit spanning trees (DESIGN §3 C01)."""

from __future__ import annotations

import random

import numpy as np

from mdsim import core
from mdsim.models import graph
from mdsim.props import _gen

PROP = "C01"
LEVEL = "exploration"
TECHNIQUE = "deterministic simulation: seeded search over owned RNG draw schedules (S-RNG seam) + graph reference model"
RUNS = {"quick": 30000, "thorough": 1200000}
BATCH = {"quick": 100, "thorough": 250}
COMPONENTS = {
    "real": ["maze_dataset.generation.generators (all five generators)", "LatticeMaze constructor"],
    "stub": ["random.randint/choice, numpy.random.randint/choice/rand (owned by SimRNG in 'owned' runs; real+seeded in 'real' runs)"],
}
RULE = (
    "one run = one generator call with swarm-drawn (generator, shape, kwargs, RNG mode, per-site draw policies); distinct = distinct "
    "(generator, shape, kwargs, output array) digests; non-trivial = grid has >= 2 cells"
)


def gen_specs(rng: random.Random, tier: str, n: int) -> list[dict]:
    specs = []
    for i in range(n):
        seed = rng.getrandbits(48)
        big = (tier == "thorough" and i % 400 == 0) or i % 100 == 57  # 16..20-cell sides: 128+ cells
        long = i % 100 == 7
        specs.append(_gen.gen_spec(rng, seed, 7 if tier == "quick" else 12, constrained_bias=0.5, big=big, long=long))
    return specs


def judge(spec: dict, out: _gen.GenOutcome, log: core.EventLog):
    gen = spec["gen"]
    r, c = spec["shape"]
    kw = spec["kwargs"]
    default_args = not kw
    if out.budget_exceeded:
        raise core.NotJudged("draw-budget")
    if out.exc is not None:
        if isinstance(out.exc, AssertionError):
            raise core.NotJudged("generator-rejected-arguments")
        if default_args and gen in ("gen_dfs", "gen_wilson", "gen_prim"):  # gen_prim: the depth-first generator under its alias (randomised stack)
            raise core.Violation("C01.default-generator-raised", f"{gen}{(r, c)} raised {out.exc!r}")
        raise core.NotJudged("generator-raised:" + type(out.exc).__name__)
    maze = out.maze
    conn = getattr(maze, "connection_list", None)
    errs = graph.wellformed_errors(conn, (r, c))
    if errs:
        raise core.Violation("C01.wellformed", f"{gen}{(r, c)} {kw}: " + "; ".join(errs))
    n_edges = len(graph.edges(conn))
    log.add("out", core.digest(conn.tolist()), n_edges)
    if default_args and gen in ("gen_dfs", "gen_wilson", "gen_prim"):  # gen_prim: the depth-first generator under its alias (randomised stack)
        good, why = graph.is_spanning_tree(conn)
        if not good:
            raise core.Violation("C01.spanning-tree", f"{gen}{(r, c)} default args: {why}")
    if gen == "gen_percolation" and "p" in kw:
        if kw["p"] == 0.0 and n_edges != 0:
            raise core.Violation("C01.percolation-p0", f"p=0 on {(r, c)} produced {n_edges} connections")
        if kw["p"] == 1.0 and n_edges != graph.n_lattice_edges(r, c):
            raise core.Violation("C01.percolation-p1", f"p=1 on {(r, c)} produced {n_edges} of {graph.n_lattice_edges(r, c)} lattice edges")
    return n_edges


def run_one(spec: dict) -> dict:
    log = core.EventLog()
    _gen.run_history_prefix(spec, log)
    out = _gen.execute(spec, log)
    extra = {"draws": out.sim.draws if out.sim is not None else None}
    stats = dict(out.sim.stats()) if out.sim is not None else {}
    stats["mode_" + spec["mode"]] = 1
    stats["gen_" + spec["gen"]] = 1
    if out.sim is not None:
        for p in out.sim.policies_used:
            stats["policy_" + p] = 1
    try:
        n_edges = judge(spec, out, log)
    except core.NotJudged as e:
        stats["not_judged_" + e.reason] = 1
        return core.ok(log, stats=stats, nontrivial=None)
    except core.Violation as v:
        return core.violation(v.oracle, v.msg, log, key=v.key, stats=stats, spec=spec, **extra)
    r, c = spec["shape"]
    if not spec["kwargs"] and spec["gen"] in ("gen_dfs", "gen_wilson", "gen_prim"):
        stats["probe_spanning_tree_checked"] = 1
    if spec["gen"] == "gen_percolation" and spec["kwargs"].get("p") in (0.0, 1.0):
        stats["probe_percolation_extreme_p"] = 1
    if out.sim is not None and out.sim.n_exact_zero:
        stats["probe_rand_returned_exact_zero"] = 1
    if r == 1 or c == 1:
        stats["probe_degenerate_1xn"] = 1
    if r != c:
        stats["probe_oblong"] = 1
    if max(r, c) >= 128:
        stats["probe_side_at_least_128"] = 1
    nontrivial = log.digest() if r * c >= 2 else None
    return core.ok(log, stats=stats, nontrivial=nontrivial)


def run(spec: dict, ctx) -> dict:
    "spec is either a single run or a batch {'batch': [specs]}"
    if "batch" in spec:
        return {"status": "batch", "results": _gen.run_batch(spec["batch"], run_one)}
    return run_one(spec)


def shrink(spec: dict, result: dict):
    return _gen.shrink_candidates(spec, result)


def sample_of(spec: dict, result: dict):
    return {"spec": {k: spec[k] for k in ("gen", "shape", "kwargs", "mode", "seed")}, "digest": result.get("digest")}
