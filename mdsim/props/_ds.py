"""Shared helpers for dataset-level properties (C03 C04 C05 C08 C11): config swarm, config construction from a
JSON spec, and the plain-data dataset model (raw arrays -> python lists; no library `==` anywhere)."""

from __future__ import annotations

import json
import random

import numpy as np

GENS = ["gen_dfs", "gen_wilson", "gen_percolation", "gen_dfs_percolation", "gen_prim"]

DOCUMENTED_ERRORS = (
    "no valid start or end positions found",
    "Cannot take a larger sample than population",
    "high <= 0",
    "low >= high",
    "a must be greater than 0",
    "a must be non-empty",
    "can't create path in single-node maze",
)


def is_documented_error(e: BaseException) -> bool:
    if not isinstance(e, (ValueError, AssertionError)):
        return False
    msg = " ".join(str(a) for a in e.args)
    return any(d in msg for d in DOCUMENTED_ERRORS)


def is_solver_failure(e: BaseException) -> bool:
    return isinstance(e, ValueError) and "could not be found" in " ".join(str(a) for a in e.args)


# ------------------------------------------------------------------------------------------------
# config swarm (JSON-native values only: tuple-valued generator kwargs are C18's known finding)
# ------------------------------------------------------------------------------------------------
def rand_ctor_kwargs(rng: random.Random, gen: str, n: int) -> dict:
    kw: dict = {}
    total = n * n
    if gen in ("gen_dfs", "gen_prim", "gen_dfs_percolation") and rng.random() < 0.35:
        # counts (int) or proportions (float, incl. the whole-valued 1.0, which means "all" as a float and "one" as an int);
        # gen_dfs_percolation documents ints only
        prop_ok = gen != "gen_dfs_percolation"
        if rng.random() < 0.5:
            if prop_ok and rng.random() < 0.4:
                kw["accessible_cells"] = rng.choice([1.0, 0.5, 0.75, round(rng.uniform(0.3, 1.0), 2)])
            else:
                kw["accessible_cells"] = rng.randint(2, total)
        if rng.random() < 0.4:
            if prop_ok and rng.random() < 0.4:
                kw["max_tree_depth"] = rng.choice([1.0, 0.5, round(rng.uniform(0.3, 1.0), 2)])
            else:
                kw["max_tree_depth"] = rng.randint(2, 2 * total)
        if gen != "gen_dfs_percolation" and rng.random() < 0.3:
            kw["do_forks"] = rng.random() < 0.5
    if gen in ("gen_percolation", "gen_dfs_percolation"):
        if rng.random() < 0.7:
            kw["p"] = rng.choice([0.1, 0.3, 0.4, 0.5, 0.7, 0.9, 1.0, round(rng.random(), 2)])
    if gen != "gen_wilson" and rng.random() < 0.2:
        kw["start_coord"] = [rng.randrange(n), rng.randrange(n)]
    return kw


def rand_endpoint_kwargs(rng: random.Random, n: int, rich: bool = True) -> dict:
    ek: dict = {}
    if not rich or rng.random() < 0.45:
        return ek
    cells = [[i, j] for i in range(n) for j in range(n)]
    if rng.random() < 0.45:
        k = rng.randint(1, max(1, min(len(cells), 5)))
        ek["allowed_start"] = rng.sample(cells, k)
    if rng.random() < 0.45:
        k = rng.randint(1, max(1, min(len(cells), 5)))
        ek["allowed_end"] = rng.sample(cells, k)
    if rng.random() < 0.3:
        ek["deadend_start"] = rng.random() < 0.8
    if rng.random() < 0.3:
        ek["deadend_end"] = rng.random() < 0.8
    if rng.random() < 0.3:
        ek["endpoints_not_equal"] = rng.random() < 0.8
    return ek


def rand_filters(rng: random.Random, n: int, n_mazes: int, allow=("path_length", "start_end_distance", "truncate_count", "cut_percentile_shortest", "remove_duplicates")) -> list:
    out = []
    for _ in range(rng.choice([0, 0, 1, 1, 2, 3])):
        name = rng.choice(list(allow))
        if name == "path_length":
            out.append({"name": name, "args": [rng.randint(1, max(2, n + 1))], "kwargs": {}})
        elif name == "start_end_distance":
            out.append({"name": name, "args": [rng.randint(0, max(1, n))], "kwargs": {}})
        elif name == "truncate_count":
            if rng.random() < 0.5:
                out.append({"name": name, "args": [rng.randint(1, n_mazes + 1)], "kwargs": {}})
            else:
                out.append({"name": name, "args": [], "kwargs": {"max_count": rng.randint(1, n_mazes + 1)}})
        elif name == "cut_percentile_shortest":
            out.append({"name": name, "args": [float(rng.choice([10.0, 25.0, 50.0, 5.0]))], "kwargs": {}})
        elif name == "remove_duplicates":
            out.append({"name": name, "args": [], "kwargs": {}})
    return out


def rand_cfgspec(rng: random.Random, max_n: int = 6, max_mazes: int = 8, filters: bool = True, rich_endpoints: bool = True, gens=GENS, min_n: int = 2, big_mazes: float = 0.0, force: str | None = None) -> dict:
    gen = rng.choice(gens)
    n = rng.randint(min_n, max_n)
    n_mazes = rng.randint(1, max_mazes)
    if big_mazes and rng.random() < big_mazes:
        # dataset sizes on both sides of the library's default size threshold (100), on small grids to stay cheap
        n = rng.randint(min_n, min(max_n, 4))
        n_mazes = rng.randint(97, 130) if rng.random() < 0.5 else rng.randint(17, 60)
    kw = rand_ctor_kwargs(rng, gen, n)
    if force == "float_kwargs":
        # make sure the rarer argument class (proportions given as floats) is present in small batches too
        gen = rng.choice(["gen_dfs", "gen_prim"])
        n = max(n, 3)
        kw = {rng.choice(["accessible_cells", "max_tree_depth"]): rng.choice([1.0, 1.0, 0.5, 0.75, round(rng.uniform(0.4, 1.0), 2)])}
        if rng.random() < 0.3:
            kw["accessible_cells"] = rng.choice([1.0, 0.6, 0.9])
    return {
        "name": rng.choice(["t", "sim", "cache-test", "a b", "v1.5"]),
        "grid_n": n,
        "n_mazes": n_mazes,
        "maze_ctor": gen,
        "maze_ctor_kwargs": kw,
        "endpoint_kwargs": rand_endpoint_kwargs(rng, n, rich_endpoints),
        "seed": rng.choice([42, 42, 0, 1, 7, rng.randrange(2**31)]),
        "applied_filters": rand_filters(rng, n, n_mazes) if (filters and rng.random() < 0.4) else [],
    }


# ------------------------------------------------------------------------------------------------
# inside a simulated process
# ------------------------------------------------------------------------------------------------
def make_cfg(spec: dict):
    from maze_dataset import MazeDatasetConfig
    from maze_dataset.generation.generators import GENERATORS_MAP

    ek = {}
    for k, v in spec.get("endpoint_kwargs", {}).items():
        ek[k] = [tuple(x) for x in v] if isinstance(v, list) else v
        if isinstance(v, list) and spec.get("endpoint_repr") == "int8-arrays":
            # coordinates as they come from mazes read back from a minimal-format archive (int8 arrays)
            ek[k] = [np.array(x, dtype=np.int8) for x in v]
    filters = [dict(name=f["name"], args=tuple(f.get("args", ())), kwargs=dict(f.get("kwargs", {}))) for f in spec.get("applied_filters", [])]
    kw = dict(
        name=spec["name"],
        grid_n=spec["grid_n"],
        n_mazes=spec["n_mazes"],
        maze_ctor=GENERATORS_MAP[spec["maze_ctor"]],
        maze_ctor_kwargs=json.loads(json.dumps(spec.get("maze_ctor_kwargs", {}))),
        endpoint_kwargs=ek,
        applied_filters=filters,
    )
    if "seed" in spec:
        kw["seed"] = spec["seed"]
    for k in ("seq_len_min", "seq_len_max"):
        if k in spec:
            kw[k] = spec[k]
    return MazeDatasetConfig(**kw)


def scramble(x):
    """edit a data structure the library handed out, in place, everywhere (dict entries, list items, array contents): what a
    caller who owns the structure may do to it.  Used only on structures taken from a *donor* object built from its own copies
    of everything, so that nothing the donor legitimately shares with its own form is judged: only state shared through the
    library (memoised forms, module-level tables) can carry the edit to another object."""
    if isinstance(x, dict):
        for k in list(x):
            v = x[k]
            if isinstance(v, (dict, list, np.ndarray)):
                scramble(v)
            elif isinstance(v, bool):
                x[k] = not v
            elif isinstance(v, str):
                x[k] = v + "~"
            elif isinstance(v, (int, float)):
                x[k] = v + 1
        x["__edited__"] = 1
    elif isinstance(x, list):
        for i, v in enumerate(x):
            if isinstance(v, (dict, list, np.ndarray)):
                scramble(v)
            elif isinstance(v, str):
                x[i] = v + "~"
        x.append("~")
    elif isinstance(x, np.ndarray) and x.flags.writeable and x.size:
        if x.dtype == np.bool_:
            x[...] = ~x
        elif np.issubdtype(x.dtype, np.number):
            x[...] = x + 1


def _norm(x):
    "JSON-normalise: tuples -> lists, numpy -> python, dict keys -> str"
    if isinstance(x, dict):
        return {str(k): _norm(v) for k, v in x.items()}
    if isinstance(x, (list, tuple)):
        return [_norm(v) for v in x]
    if isinstance(x, np.ndarray):
        return _norm(x.tolist())
    if isinstance(x, np.generic):
        return x.item()
    return x


def cfg_key(cfg, drop_n_mazes: bool = True) -> dict:
    "plain-data identity of a config, read field by field (never via the library's == or hash)"
    k = {
        "class": type(cfg).__name__,
        "name": cfg.name,
        "grid_n": int(cfg.grid_n),
        "n_mazes": int(cfg.n_mazes),
        "maze_ctor": getattr(cfg.maze_ctor, "__name__", repr(cfg.maze_ctor)),
        "maze_ctor_kwargs": _norm(cfg.maze_ctor_kwargs),
        "endpoint_kwargs": _norm(cfg.endpoint_kwargs),
        "seed": cfg.seed,
        "applied_filters": [{"name": f["name"], "args": _norm(f.get("args", [])), "kwargs": _norm(f.get("kwargs", {}))} for f in cfg.applied_filters],
        "seq_len_min": cfg.seq_len_min,
        "seq_len_max": cfg.seq_len_max,
    }
    if drop_n_mazes:
        k.pop("n_mazes")
    return k


def spec_key(spec: dict) -> dict:
    "cfg_key of the config a spec describes, computed without the library"
    return {
        "class": "MazeDatasetConfig",
        "name": spec["name"],
        "grid_n": spec["grid_n"],
        "maze_ctor": spec["maze_ctor"],
        "maze_ctor_kwargs": _norm(spec.get("maze_ctor_kwargs", {})),
        "endpoint_kwargs": _norm(spec.get("endpoint_kwargs", {})),
        "seed": spec.get("seed", 42),
        "applied_filters": [{"name": f["name"], "args": _norm(f.get("args", [])), "kwargs": _norm(f.get("kwargs", {}))} for f in spec.get("applied_filters", [])],
        "seq_len_min": spec.get("seq_len_min", 1),
        "seq_len_max": spec.get("seq_len_max", 512),
    }


CGM = {"name": "collect_generation_meta", "args": [], "kwargs": {}}


def key_relation(stored: dict, request: dict) -> str:
    """'equal' | 'equal+cgm' (stored has exactly one extra trailing collect_generation_meta) | 'different'"""
    if stored == request:
        return "equal"
    a = dict(stored)
    b = dict(request)
    fa = a.pop("applied_filters", [])
    fb = b.pop("applied_filters", [])
    if a == b and len(fa) == len(fb) + 1 and fa[:-1] == fb and fa[-1] == CGM:
        return "equal+cgm"
    return "different"


def maze_record(m) -> list:
    "canonical plain-data record of a solved maze: values and shape, not storage dtype"
    conn = np.asarray(m.connection_list)
    sol = np.asarray(m.solution)
    return [list(conn.shape), conn.astype(np.bool_).astype(np.uint8).tobytes().hex(), sol.astype(np.int64).tolist()]


def ds_model(ds) -> dict:
    return {
        "class": type(ds).__name__,
        "cfg": cfg_key(ds.cfg, drop_n_mazes=False),
        "mazes": [maze_record(m) for m in ds.mazes],
        "has_collected_meta": ds.generation_metadata_collected is not None,
    }


def outcome_of(fn):
    "run fn() -> dataset; classify the outcome as plain data"
    try:
        ds = fn()
    except Exception as e:  # noqa: BLE001
        return {"kind": "raised", "exc": type(e).__name__, "msg": " ".join(str(a) for a in e.args)[:300], "documented": is_documented_error(e), "solver_failure": is_solver_failure(e), "oserror": isinstance(e, OSError)}
    try:
        return {"kind": "returned", "model": ds_model(ds)}
    except Exception as e:  # noqa: BLE001 - e.g. a foreign object without .cfg/.mazes was returned
        return {"kind": "returned-other", "type": type(ds).__name__, "err": repr(e)[:200]}
