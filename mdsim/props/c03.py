"""C03 — every dataset item is a correctly solved maze, serially and under any worker-pool schedule (DESIGN §3 C03)."""

from __future__ import annotations

import os
import random

import numpy as np

from mdsim import core
from mdsim.models import graph
from mdsim.props import _ds
from mdsim.seams import pool as spool

PROP = "C03"
LEVEL = "exploration"
TECHNIQUE = "deterministic simulation of the worker pool (S-POOL seam: seeded task->worker schedules, recycling, fork/spawn state, parent history) + per-item BFS/endpoint reference model"
RUNS = {"quick": 1400, "thorough": 80000}
JOB_TIMEOUT = 600.0
COMPONENTS = {
    "real": ["MazeDataset.generate / from_config", "_maze_gen_init_worker", "_generate_maze_helper", "all generators", "generate_random_path", "find_shortest_path", "SolvedMaze constructor", "pickle round trips of initargs/tasks/results"],
    "stub": ["multiprocessing.Pool / current_process (SimPool: worker contexts with their own random / numpy / module-global state); validated against real multiprocessing.Pool runs in the same batch (probe_real_pool_matches_simpool_streams)"],
}
RULE = (
    "one run = a parent history (0-2 earlier generate calls, serial or pooled) followed by the judged generate/from_config call under a "
    "seeded pool schedule (pool size, maxtasksperchild, start method, identity counter start, assignment policy, fork entropies); distinct = "
    "distinct (configuration, schedule log) digests; non-trivial = parallel run in which >= 2 workers executed tasks, or a serial run after a non-empty history"
)
LEVEL_TEXT = (
    "Seeded search over worker-pool schedules and parent histories: the pool is simulated in-process (task granularity is the complete interleaving space because workers share nothing), each worker context carries the process-global state a real child would own (re-seeded stdlib random, inherited or fresh NumPy state, stale or missing module-global worker config, growing identity counter); every returned item is judged on its raw arrays by a BFS/degree model. Also varied: dataset sizes across the library's size threshold, endpoint sets given as int8 coordinate arrays, small trees grown in the far corner of 129-300-cell-wide grids (coordinates beyond one byte), long parent histories, the cached config-driven entry point called twice on one configuration object, and one interpreter slot in three running under python -O. Sampling, not proof.",
    "Trusted: the SimPool model of multiprocessing.Pool/imap/initializer/maxtasksperchild semantics and of CPython's fork-time re-seeding of `random` (thorough tier cross-checks SimPool streams against real pools).",
)


OPTIMIZE_SLOTS = {"quick": [2], "thorough": [2]}  # one interpreter slot in three runs under `python -O` (asserts stripped)


def gen_specs(rng: random.Random, tier: str, n: int) -> list[dict]:
    specs = []
    for i in range(n):
        cfg = _ds.rand_cfgspec(rng, max_n=8 if tier == "thorough" else 7, max_mazes=16 if tier == "thorough" else 10, filters=False, rich_endpoints=True, big_mazes=0.05)
        narrow = i % 40 == 13
        if narrow:
            # endpoint sets given as int8 coordinate arrays on a grid wide enough for flat cell indices to exceed 255
            g = rng.choice([17, 18, 20])
            cells = [[rng.randrange(g), rng.randrange(g)] for _ in range(rng.randint(2, 6))] + [[g - 1, g - 1 - rng.randrange(3)], [g - 2, rng.randrange(g)]]
            cfg = {"name": "narrow", "grid_n": g, "n_mazes": rng.randint(1, 3), "maze_ctor": rng.choice(["gen_dfs", "gen_dfs_percolation"]), "maze_ctor_kwargs": {}, "endpoint_kwargs": {rng.choice(["allowed_start", "allowed_end"]): cells}, "seed": rng.randrange(10**6), "applied_filters": [], "endpoint_repr": "int8-arrays"}
        far = i % 40 == 27
        if far:
            # coordinates beyond what one signed / unsigned byte holds: a small tree grown in the far corner of a wide grid
            g = rng.choice([129, 130, 140, 160, 200, 257, 300])
            corner = [g - 1 - rng.randrange(3), g - 1 - rng.randrange(3)]
            ek = {}
            if rng.random() < 0.4:
                ek[rng.choice(["allowed_start", "allowed_end"])] = [[g - 1 - rng.randrange(6), g - 1 - rng.randrange(6)] for _ in range(8)] + [corner]
            cfg = {"name": "far", "grid_n": g, "n_mazes": rng.randint(1, 3), "maze_ctor": "gen_dfs", "maze_ctor_kwargs": {"accessible_cells": rng.randint(12, 60), "start_coord": corner}, "endpoint_kwargs": ek, "seed": rng.randrange(10**6), "applied_filters": []}
        hist = []
        for _ in range(rng.choice([0, 0, 1, 1, 2]) if rng.random() > 0.03 else rng.randint(10, 16)):  # a few long parent histories
            hist.append(
                {
                    "cfg": _ds.rand_cfgspec(rng, max_n=6, max_mazes=4, filters=False, rich_endpoints=False),
                    "parallel": rng.random() < 0.5,
                    "pool_kwargs": {"processes": rng.randint(1, 3)},
                }
            )
        parallel = rng.random() < 0.75
        pk: dict = {}
        if parallel:
            if rng.random() < 0.85:
                pk["processes"] = rng.randint(1, 8)
            if rng.random() < 0.4:
                pk["maxtasksperchild"] = rng.randint(1, 5)
        specs.append(
            {
                "seed": rng.getrandbits(48),
                "slot": i % 3,
                "cfg": cfg,
                "history": hist,
                "parallel": parallel,
                "via": "generate" if narrow else rng.choice(["generate", "generate", "from_config"] + (["from_config_cached"] if i % 8 == 5 else [])),  # from_config needs JSON-native kwargs (file name)
                "first_n": rng.randint(1, 6),
                "pool_kwargs": pk,
                "world": {
                    "start_method": rng.choice(["fork", "fork", "spawn"]),
                    "cpu_count": rng.randint(1, 8),
                    "identity_start": rng.choice([1, 1, 2, 7, 40]),
                    "assign_policy": rng.choice(["uniform", "uniform", "round-robin", "one-worker", "sticky", "last-worker"]),
                },
            }
        )
    for _ in range(6 if tier == "quick" else 40):
        gen = rng.choice(["gen_wilson", "gen_percolation"])
        cfg = {"name": "fid", "grid_n": rng.randint(3, 6), "n_mazes": rng.randint(4, 14), "maze_ctor": gen, "maze_ctor_kwargs": ({"p": 1.0} if gen == "gen_percolation" else {}), "endpoint_kwargs": {}, "seed": rng.randrange(10**6), "applied_filters": []}
        pk = {"processes": rng.randint(1, 3)}
        if rng.random() < 0.3:
            pk["maxtasksperchild"] = rng.randint(2, 4)
        specs.append({"seed": rng.getrandbits(48), "fidelity": {"cfg": cfg, "pool_kwargs": pk}})
    return specs


def judge_items(cfgspec: dict, ds, stats: dict):
    n = cfgspec["grid_n"]
    ek = cfgspec.get("endpoint_kwargs", {})
    if len(ds) != cfgspec["n_mazes"]:
        raise core.Violation("C03.dataset-length", f"{len(ds)} items for n_mazes={cfgspec['n_mazes']}")
    special = (ek.get("allowed_start"), ek.get("allowed_end"), bool(ek.get("deadend_start", False)), bool(ek.get("deadend_end", False))) != (None, None, False, False)
    must_differ = (not special) or bool(ek.get("endpoints_not_equal", False))
    a_start = {tuple(x) for x in ek["allowed_start"]} if ek.get("allowed_start") is not None else None
    a_end = {tuple(x) for x in ek["allowed_end"]} if ek.get("allowed_end") is not None else None
    for i, m in enumerate(ds.mazes):
        conn = np.asarray(m.connection_list)
        errs = graph.wellformed_errors(conn, (n, n))
        if errs:
            raise core.Violation("C03.item-grid", f"item {i}: " + "; ".join(errs))
        sol = np.asarray(m.solution)
        perr = graph.path_errors(conn, sol)
        if perr:
            raise core.Violation("C03.solution-is-path", f"item {i}: " + "; ".join(perr))
        s = (int(sol[0][0]), int(sol[0][1]))
        e = (int(sol[-1][0]), int(sol[-1][1]))
        sp = tuple(int(x) for x in np.asarray(m.start_pos))
        ep = tuple(int(x) for x in np.asarray(m.end_pos))
        if sp != s or ep != e:
            raise core.Violation("C03.endpoints-match-solution", f"item {i}: start_pos={sp} end_pos={ep} but solution runs {s}..{e}")
        d = graph.bfs_dist(conn, s).get(e)
        if d is None or d != len(sol) - 1:
            raise core.Violation("C03.solution-shortest", f"item {i}: solution has {len(sol) - 1} steps, BFS distance is {d}")
        if must_differ and s == e:
            raise core.Violation("C03.endpoints-distinct", f"item {i}: start == end == {s} although the endpoint options do not allow it ({ek})")
        if a_start is not None and s not in a_start:
            raise core.Violation("C03.allowed-start", f"item {i}: start {s} not in allowed_start {sorted(a_start)}")
        if a_end is not None and e not in a_end:
            raise core.Violation("C03.allowed-end", f"item {i}: end {e} not in allowed_end {sorted(a_end)}")
        if ek.get("deadend_start") or ek.get("deadend_end"):
            deg = graph.degrees(conn)
            if ek.get("deadend_start") and deg[s] != 1:
                raise core.Violation("C03.deadend-start", f"item {i}: start {s} has degree {deg[s]}")
            if ek.get("deadend_end") and deg[e] != 1:
                raise core.Violation("C03.deadend-end", f"item {i}: end {e} has degree {deg[e]}")
        if s == e:
            stats["probe_start_equals_end_allowed"] = 1
        if len(graph.edges(conn)) != n * n - 1:
            stats["probe_non_tree_item"] = 1


def _call(spec_cfg, parallel, pool_kwargs, via):
    from maze_dataset import MazeDataset

    cfg = _ds.make_cfg(spec_cfg)
    if via.startswith("from_config_cached:"):
        # the config-driven entry point with its on-disk cache in a scratch directory, called twice on ONE configuration object
        # whose maze count is re-assigned in between: the second dataset must have the count the object then asks for
        _, first_n, scratch = via.split(":", 2)
        n = cfg.n_mazes
        cfg.n_mazes = int(first_n)
        try:
            MazeDataset.from_config(cfg, local_base_path=scratch, gen_parallel=parallel, pool_kwargs=dict(pool_kwargs))
        except Exception:  # noqa: BLE001 - only the second call is judged
            pass
        cfg.n_mazes = n
        return MazeDataset.from_config(cfg, local_base_path=scratch, gen_parallel=parallel, pool_kwargs=dict(pool_kwargs))
    if via == "from_config":
        return MazeDataset.from_config(cfg, load_local=False, save_local=False, gen_parallel=parallel, pool_kwargs=dict(pool_kwargs))
    return MazeDataset.generate(cfg, gen_parallel=parallel, pool_kwargs=dict(pool_kwargs))


def st_real_pool(cfgspec, pool_kwargs):
    "the real multiprocessing.Pool (no seam): used only to validate the SimPool stub"
    from maze_dataset import MazeDataset

    ds = MazeDataset.generate(_ds.make_cfg(cfgspec), gen_parallel=True, pool_kwargs=dict(pool_kwargs))
    return [_ds.maze_record(m) for m in ds.mazes]


def st_sim_stream(cfgspec, identity, n):
    "what the simulated worker with this identity produces when it executes n tasks in a row"
    from maze_dataset import MazeDataset

    world = spool.PoolWorld(0, "fork", 1, identity, assign_policy="one-worker")
    with spool.Installed(world):
        ds = MazeDataset.generate(_ds.make_cfg(dict(cfgspec, n_mazes=n)), gen_parallel=True, pool_kwargs={"processes": 1})
    return [_ds.maze_record(m) for m in ds.mazes]


def run_fidelity(spec, ctx):
    """Stub validation (DESIGN S-POOL): for generators that use only NumPy randomness a real pool's output is an
    interleaving of per-worker streams determined by cfg.seed + identity; every real maze must appear, in order, in
    the SimPool stream of some worker identity. A mismatch is a harness failure (the stub is unfaithful), not a verdict."""
    f = spec["fidelity"]
    cfg, pk = f["cfg"], f["pool_kwargs"]
    # the real pool is the one thing in this harness whose schedule nobody controls; a stub that is unfaithful mismatches on
    # every attempt, a hiccup of the real pool on a loaded machine (a worker replaced by the pool) does not
    last = None
    for attempt in range(3):
        r = _fidelity_once(cfg, pk)
        if not (isinstance(r, dict) and "__harness__" in r):
            if attempt:
                r.setdefault("stats", {})["fidelity_retries"] = attempt
            return r
        last = r
    return last


def _fidelity_once(cfg, pk):
    real = core.stage(st_real_pool, cfg, pk, timeout=300.0)
    n = cfg["n_mazes"]
    procs = pk.get("processes", 2)
    m = pk.get("maxtasksperchild")
    n_ident = procs if m is None else procs + (n + m - 1) // m + procs
    per = n if m is None else m
    streams = {k: core.stage(st_sim_stream, cfg, k, per) for k in range(1, n_ident + 1)}
    ptr = {k: 0 for k in streams}
    used = set()
    for i, rec in enumerate(real):
        for k in sorted(streams):
            if ptr[k] < len(streams[k]) and streams[k][ptr[k]] == rec:
                ptr[k] += 1
                used.add(k)
                break
        else:
            return {"__harness__": "simpool-fidelity", "msg": f"real pool item {i} is not the next item of any simulated worker stream (identities 1..{n_ident}); the SimPool stub does not model the real pool for {cfg['maze_ctor']} with {pk}"}
    log = core.EventLog()
    # (which real workers happened to serve the tasks is decided by the OS scheduler, not by the simulator: it goes into the
    # statistics, never into the event log whose digest must be a function of the seed alone)
    log.add("fidelity", cfg, pk, "every real item is the next item of a simulated worker stream")
    return core.ok(log, stats={"probe_real_pool_matches_simpool_streams": 1, "real_pool_workers_seen": len(used)}, nontrivial=log.digest() if len(used) >= 1 else None)


def run(spec: dict, ctx) -> dict:
    if "fidelity" in spec:
        return run_fidelity(spec, ctx)
    log = core.EventLog()
    stats: dict = {}
    w = spec["world"]
    world = spool.PoolWorld(spec["seed"], w["start_method"], w["cpu_count"], w["identity_start"], assign=w.get("assign"), assign_policy=w.get("assign_policy", "uniform"))
    log.add("spec", spec["cfg"], spec["parallel"], spec["pool_kwargs"], spec["via"], w, [[h["cfg"], h["parallel"], h["pool_kwargs"]] for h in spec["history"]])
    with spool.Installed(world):
        for h in spec["history"]:
            try:
                _call(h["cfg"], h["parallel"], h["pool_kwargs"], "generate")
                stats["history_call_ok"] = stats.get("history_call_ok", 0) + 1
            except Exception:  # noqa: BLE001 - history only plants state
                stats["history_call_raised"] = stats.get("history_call_raised", 0) + 1
        n_before = len(world.log)
        used_before = world.max_workers_used
        world.max_workers_used = 0
        try:
            via = spec["via"]
            if via == "from_config_cached":
                via = "from_config_cached:%d:%s" % (spec.get("first_n", 2), os.path.join(ctx.scratch, "cache"))
                stats["probe_cached_entry_point_count_reassigned"] = 1
            ds = _call(spec["cfg"], spec["parallel"], spec["pool_kwargs"], via)
            exc = None
        except Exception as e:  # noqa: BLE001
            ds, exc = None, e
    sched = world.log[n_before:]
    log.add("schedule", sched)
    stats["parallel" if spec["parallel"] else "serial"] = 1
    stats["start_" + w["start_method"]] = 1 if spec["parallel"] else 0
    stats["recycles"] = sum(1 for e in sched if e[0] == "recycle")
    stats["workers_spawned"] = sum(1 for e in sched if e[0] == "spawn")
    if world.max_workers_used >= 2:
        stats["probe_two_or_more_workers_ran_tasks"] = 1
    if stats["recycles"]:
        stats["probe_worker_recycled_mid_dataset"] = 1
    if spec["history"]:
        stats["probe_after_parent_history"] = 1
    sched_out = {"assign": [e[2] for e in sched if e[0] == "task"]}
    if exc is not None:
        msg = " ".join(str(a) for a in exc.args)[:300]
        log.add("raised", type(exc).__name__, msg[:80])
        if _ds.is_solver_failure(exc):
            return core.violation("C03.endpoints-disconnected", f"solver failed during generation (endpoints drawn from different components): {msg[:200]}", log, stats=stats, spec=spec)
        if _ds.is_documented_error(exc):
            stats["not_judged_documented-error"] = 1
            return core.ok(log, stats=stats, nontrivial=None)
        return core.violation("C03.generation-raised", f"generation raised an undocumented {type(exc).__name__}: {msg}", log, stats=stats, spec=spec)
    try:
        judge_items(spec["cfg"], ds, stats)
    except core.Violation as v:
        return core.violation(v.oracle, v.msg, log, stats=stats, spec=spec, **sched_out)
    log.add("items", core.digest([_ds.maze_record(m) for m in ds.mazes]))
    nontrivial = None
    if (spec["parallel"] and world.max_workers_used >= 2) or (not spec["parallel"] and spec["history"]):
        nontrivial = log.digest()
    return core.ok(log, stats=stats, nontrivial=nontrivial)


def shrink(spec: dict, result: dict):
    if "fidelity" in spec:
        return
    if spec["history"]:
        yield dict(spec, history=[])
        for i in range(len(spec["history"])):
            yield dict(spec, history=spec["history"][:i] + spec["history"][i + 1 :])
    R = spec["cfg"]
    for fld, val in (("endpoint_kwargs", {}), ("maze_ctor_kwargs", {}), ("n_mazes", max(1, R["n_mazes"] // 2)), ("n_mazes", R["n_mazes"] - 1), ("grid_n", max(2, R["grid_n"] - 1)), ("name", "t"), ("seed", 42)):
        if R.get(fld) != val and val != 0:
            yield dict(spec, cfg=dict(R, **{fld: val}))
    for k in list(R.get("endpoint_kwargs", {})):
        ek = dict(R["endpoint_kwargs"])
        del ek[k]
        yield dict(spec, cfg=dict(R, endpoint_kwargs=ek))
    if spec["parallel"]:
        yield dict(spec, parallel=False, pool_kwargs={})
        pk = spec["pool_kwargs"]
        if pk.get("processes", 3) > 1:
            yield dict(spec, pool_kwargs=dict(pk, processes=max(1, pk.get("processes", 3) // 2)))
        if "maxtasksperchild" in pk:
            yield dict(spec, pool_kwargs={k: v for k, v in pk.items() if k != "maxtasksperchild"})
        w = spec["world"]
        for kk, val in (("start_method", "fork"), ("identity_start", 1), ("assign_policy", "one-worker"), ("assign_policy", "round-robin")):
            if w.get(kk) != val:
                yield dict(spec, world=dict(w, **{kk: val}))
    if spec["via"] != "generate":
        yield dict(spec, via="generate")


def sample_of(spec, result):
    if "fidelity" in spec:
        return {"fidelity": spec["fidelity"], "digest": result.get("digest")}
    return {"cfg": spec["cfg"], "parallel": spec["parallel"], "pool_kwargs": spec["pool_kwargs"], "world": spec["world"], "history_len": len(spec["history"]), "digest": result.get("digest")}
