"""C18 — configurations round-trip exactly and have stable, discriminating identities (DESIGN §3 C18).

S-PROC: the same seeded history of config constructions / serialisations / loads / hashes is executed in K
interpreters with simulator-chosen PYTHONHASHSEED (and in truly fresh interpreters); logs must agree entry by entry
across processes.  Round-trip and discrimination clauses are evaluated inside each simulated process.
"""

from __future__ import annotations

import json
import os
import random
import subprocess

from mdsim import core
from mdsim.props import _ds

PROP = "C18"
LEVEL = "exploration"
TECHNIQUE = "deterministic simulation across interpreter processes with simulator-chosen PYTHONHASHSEED (S-PROC) and seeded construction/load histories; cross-process log agreement + field-wise round-trip reference"
RUNS = {"quick": 60, "thorough": 1500}  # histories (each replicated in every hash-seed slot)
HASHSEED_SLOTS = {"quick": 3, "thorough": 12}
OPTIMIZE_SLOTS = {"quick": [2], "thorough": [2, 5, 8, 11]}  # hash-seed slots whose interpreter runs under `python -O` (asserts stripped)
FRESH = {"quick": 4, "thorough": 16}
JOB_TIMEOUT = 600.0


def minimise_budget(spec):
    return 24 if "fresh" in spec else 160

COMPONENTS = {
    "real": ["MazeDatasetConfig construction / serialize / load", "json text round trip", "stable_hash_cfg", "to_fname", "diff / ==", "MazeDatasetCollectionConfig round trip"],
    "stub": [],
}
RULE = (
    "one run = one history of ~25 configurations (all generators x kwargs incl. tuple-valued ones x endpoint coordinate lists x filter lists "
    "with tuple args x names needing sanitising x seeds), each serialised, sent through JSON text, loaded, hashed, named and compared with "
    "its single-field variants, constructions shuffled and interleaved; the same history runs in every hash-seed slot; distinct = distinct "
    "(history, slot) logs; non-trivial = every run (>= 10 configurations each)"
)
LEVEL_TEXT = (
    "The same seeded histories run in K interpreters with different PYTHONHASHSEED plus fresh interpreters; hashes, file names and serialised text must agree entry by entry across processes, and inside each process every configuration must round-trip field by field, equal-content configurations must hash equal, and single-field variants must hash differently. Sampling over configurations, not proof. Inside each history live configurations are mutated in place (container fields and assignments) and must keep the identity of a freshly built equal configuration; variants cover retyped and None-valued arguments, seeds over the whole 32-bit range, recorded filters added / removed / reordered; collection configurations whose members differ in seed but coincide in their abbreviated identity (birthday sweep) must hash differently; the serialised form of an equal donor configuration is edited everywhere and must not reach the live or a later-built configuration; one interpreter slot in three and half of the fresh twins run under python -O.",
    "Trusted: muutils.misc.sanitize_fname / shorten_numerical_to_str (third party) for the file-name model; json.",
)


def _tuplify(x):
    "spec encoding {'__tuple__': [...]} -> real tuple (so specs stay JSON while the config gets tuple values)"
    if isinstance(x, dict):
        if set(x) == {"__tuple__"}:
            return tuple(_tuplify(v) for v in x["__tuple__"])
        return {k: _tuplify(v) for k, v in x.items()}
    if isinstance(x, list):
        return [_tuplify(v) for v in x]
    return x


def has_tuple(x) -> bool:
    if isinstance(x, tuple):
        return True
    if isinstance(x, dict):
        return any(has_tuple(v) for v in x.values())
    if isinstance(x, list):
        return any(has_tuple(v) for v in x)
    return False


def make_cfg(spec):
    from maze_dataset import MazeDatasetConfig
    from maze_dataset.generation.generators import GENERATORS_MAP

    ek = {}
    for k, v in spec.get("endpoint_kwargs", {}).items():
        ek[k] = [tuple(x) for x in v] if isinstance(v, list) else v
    filters = [dict(name=f["name"], args=tuple(_tuplify(f.get("args", []))), kwargs=_tuplify(dict(f.get("kwargs", {})))) for f in spec.get("applied_filters", [])]
    return MazeDatasetConfig(
        name=spec["name"],
        grid_n=spec["grid_n"],
        n_mazes=spec["n_mazes"],
        maze_ctor=GENERATORS_MAP[spec["maze_ctor"]],
        maze_ctor_kwargs=_tuplify(spec.get("maze_ctor_kwargs", {})),
        endpoint_kwargs=ek,
        seed=spec["seed"],
        applied_filters=filters,
    )


def strict_eq(a, b) -> bool:
    "equality that distinguishes tuple from list and bool from int, recursively"
    if type(a) is not type(b):
        return False
    if isinstance(a, dict):
        return set(a) == set(b) and all(strict_eq(a[k], b[k]) for k in a)
    if isinstance(a, (list, tuple)):
        return len(a) == len(b) and all(strict_eq(x, y) for x, y in zip(a, b))
    return a == b


def roundtrip_check(cfg, through_text: bool, what: str):
    from maze_dataset import MazeDatasetConfig

    ser = cfg.serialize()
    if through_text:
        ser = json.loads(json.dumps(ser))
    ser_text = json.dumps(ser, sort_keys=True, default=str)
    loaded = MazeDatasetConfig.load(ser)
    # a saved form may be loaded more than once: loading must not consume or alter it
    again = MazeDatasetConfig.load(ser)
    if json.dumps(ser, sort_keys=True, default=str) != ser_text:
        raise core.Violation("C18.roundtrip-equal", f"{what}: load() altered the serialised form it was given")
    if json.dumps(again.serialize(), default=str) != json.dumps(loaded.serialize(), default=str):
        raise core.Violation("C18.roundtrip-equal", f"{what}: loading the same serialised form twice gives two different configurations")
    problems = []
    if loaded.maze_ctor is not cfg.maze_ctor:
        problems.append("maze_ctor is not the same generator function")
    for fld in ("name", "grid_n", "n_mazes", "seed", "seq_len_min", "seq_len_max"):
        if getattr(loaded, fld) != getattr(cfg, fld):
            problems.append(f"{fld}: {getattr(loaded, fld)!r} != {getattr(cfg, fld)!r}")
    kwargs_problem = False
    if not strict_eq(loaded.maze_ctor_kwargs, cfg.maze_ctor_kwargs):
        kwargs_problem = True
    if not strict_eq(loaded.endpoint_kwargs, cfg.endpoint_kwargs):
        problems.append(f"endpoint_kwargs: {loaded.endpoint_kwargs!r} != {cfg.endpoint_kwargs!r}")
    for k, v in loaded.endpoint_kwargs.items():
        if isinstance(v, list) and not all(isinstance(c, tuple) for c in v):
            problems.append(f"endpoint_kwargs[{k}] coordinates not restored as tuples: {v!r}")
    if len(loaded.applied_filters) != len(cfg.applied_filters):
        problems.append("applied_filters length differs")
    else:
        for fl, fo in zip(loaded.applied_filters, cfg.applied_filters):
            if fl["name"] != fo["name"] or not isinstance(fl["args"], tuple) or _ds._norm(fl["args"]) != _ds._norm(fo["args"]) or _ds._norm(fl["kwargs"]) != _ds._norm(fo["kwargs"]):
                problems.append(f"recorded filter differs: {fl!r} != {fo!r}")
    lib_eq = loaded == cfg
    lib_diff = cfg.diff(loaded)
    if problems:
        raise core.Violation("C18.roundtrip-equal", f"{what}: " + "; ".join(problems)[:600])
    if kwargs_problem or not lib_eq or lib_diff:
        only_tuples = _ds._norm(loaded.maze_ctor_kwargs) == _ds._norm(cfg.maze_ctor_kwargs) and has_tuple(cfg.maze_ctor_kwargs) and set(lib_diff) <= {"maze_ctor_kwargs"}
        key = "maze_ctor_kwargs-contains-tuple-value" if only_tuples else None
        raise core.Violation(
            "C18.roundtrip-equal",
            f"{what}: loaded configuration is not equal to the original (==: {lib_eq}, diff: {sorted(lib_diff)}); generator arguments {cfg.maze_ctor_kwargs!r} came back as {loaded.maze_ctor_kwargs!r}",
            key=key,
        )
    return loaded


def fname_model(cfg, h: int) -> str:
    from muutils.misc import sanitize_fname, shorten_numerical_to_str

    ctor = cfg.maze_ctor.__name__
    if ctor.startswith("gen_"):
        ctor = ctor[4:]
    return sanitize_fname(f"{cfg.name}-g{cfg.grid_n}-n{shorten_numerical_to_str(cfg.n_mazes)}-a_{ctor}-h{h % 10**5}")


def variants(spec: dict) -> list:
    out = []

    def v(field, **chg):
        s = dict(spec)
        s.update(chg)
        out.append((field, s))

    v("name", name=spec["name"] + "_")
    v("grid_n", grid_n=spec["grid_n"] + 1)
    v("n_mazes", n_mazes=spec["n_mazes"] + 1)
    v("maze_ctor", maze_ctor=[g for g in _ds.GENS if g != spec["maze_ctor"]][0], maze_ctor_kwargs={})
    kw = dict(spec.get("maze_ctor_kwargs", {}))
    kw["__extra__"] = 1
    v("maze_ctor_kwargs", maze_ctor_kwargs=kw)
    # the same number as another type is another generator argument (a float is a proportion, an int a count)
    kw2 = dict(spec.get("maze_ctor_kwargs", {}))
    for k in sorted(kw2):
        val = kw2[k]
        if isinstance(val, bool) or not isinstance(val, (int, float)):
            continue
        if isinstance(val, float) and val == int(val):
            kw2[k] = int(val)
            v("maze_ctor_kwargs-retyped", maze_ctor_kwargs=kw2)
            break
        if isinstance(val, int):
            kw2[k] = float(val)
            v("maze_ctor_kwargs-retyped", maze_ctor_kwargs=kw2)
            break
    kw3 = dict(spec.get("maze_ctor_kwargs", {}))
    nones = sorted(k for k, val in kw3.items() if val is None)
    if nones:
        del kw3[nones[0]]  # an argument passed explicitly as None versus not passed at all: different serialised content
        v("maze_ctor_kwargs-none-dropped", maze_ctor_kwargs=kw3)
    ek = dict(spec.get("endpoint_kwargs", {}))
    ek["deadend_start"] = not ek.get("deadend_start", False)
    v("endpoint_kwargs", endpoint_kwargs=ek)
    v("seed", seed=(spec["seed"] + 1) % 2**32)
    v("seed-other-half", seed=(spec["seed"] + 2**31) % 2**32)
    fl = list(spec.get("applied_filters", []))
    v("applied_filters", applied_filters=fl + [{"name": "path_length", "args": [1], "kwargs": {}}])
    # every recorded filter counts, also the bookkeeping ones the library records itself
    v("applied_filters+collect_generation_meta", applied_filters=fl + [{"name": "collect_generation_meta", "args": [], "kwargs": {}}])
    if fl:
        v("applied_filters-last-removed", applied_filters=fl[:-1])
        if len(fl) > 1 and fl[0] != fl[-1]:
            v("applied_filters-reordered", applied_filters=fl[::-1])
        last = dict(fl[-1])
        last["kwargs"] = dict(last.get("kwargs", {}), __extra_kwarg__=1)
        v("applied_filters-kwargs", applied_filters=fl[:-1] + [last])
    return out


def _scramble(x):
    "edit every mutable container of a serialised form in place (what a caller deriving a variant from it may do)"
    if isinstance(x, dict):
        for k in list(x):
            v = x[k]
            if isinstance(v, (dict, list)):
                _scramble(v)
            elif isinstance(v, str):
                x[k] = v + "~"
            elif isinstance(v, bool):
                x[k] = not v
            elif isinstance(v, (int, float)):
                x[k] = v + 1
        x["__edited__"] = 1
    elif isinstance(x, list):
        for v in x:
            _scramble(v)
        x.append("~")


def _handed_out_form_phase(i, cs, cfg, text, h, fn):
    """A serialised form belongs to whoever asked for it. The statement does not say whether the form may share containers with
    the configuration *it was taken from* (on the unchanged tree it does: `maze_ctor_kwargs` is handed out by reference), so
    that object is not judged. But editing the form (to derive a variant, to strip fields before logging) must not reach any
    *other* configuration: not the live one built earlier from its own copy of the same fields, nor one built afterwards -
    both must still serialise, hash and name themselves as before, and round-trip."""
    import copy

    donor = make_cfg(copy.deepcopy(cs))
    ser = donor.serialize()
    _scramble(ser)
    del donor
    text2 = json.dumps(cfg.serialize())
    if text2 != text:
        raise core.Violation("C18.roundtrip-equal", f"config #{i}: after a caller edited the serialised form of ANOTHER configuration object with the same fields, this one serialises differently (serialised forms share state through the library)")
    if cfg.stable_hash_cfg() != h or cfg.to_fname() != fn:
        raise core.Violation("C18.hash-depends-only-on-content", f"config #{i}: hash / file name changed after a caller edited the serialised form of another configuration object")
    fresh = make_cfg(copy.deepcopy(cs))
    if json.dumps(fresh.serialize()) != text or fresh.stable_hash_cfg() != h:
        raise core.Violation("C18.hash-depends-only-on-content", f"config #{i}: a configuration built from the same fields after the edit serialises / hashes differently")
    roundtrip_check(fresh, True, f"config #{i} (built after a caller edited another configuration's serialised form)")


MUT_OPS = ["kwargs-setitem", "kwargs-delitem", "endpoint-setitem", "filters-append", "filters-pop", "assign-n_mazes", "assign-name", "assign-seed", "assign-grid_n"]


def _mutation_phase(spec, i, cs, cfg, h0, events):
    """History clause of 'its hash depends only on its serialised content': a live configuration object is read
    (hash / file name), then changed - by field assignment or by mutating one of its container fields in place, as
    the library itself does (`cfg.applied_filters.append`, `cfg.n_mazes = len(...)`) - and read again.  After every
    step the identity must be that of a *freshly built* configuration with the same serialised text, and must differ
    from the identity before the step (the step changed a field the statement lists)."""
    r = random.Random(core.H("c18-mut", spec.get("seed", 0), i))
    cur = json.loads(json.dumps(cs))
    h_prev = h0
    text_prev = json.dumps(cfg.serialize())
    for step in range(r.randint(1, 3)):
        op = r.choice(MUT_OPS)
        if op == "kwargs-setitem":
            k, v = f"__m{step}__", r.randint(0, 9)
            cfg.maze_ctor_kwargs[k] = v
            cur.setdefault("maze_ctor_kwargs", {})[k] = v
        elif op == "kwargs-delitem":
            if not cfg.maze_ctor_kwargs:
                continue
            k = sorted(cfg.maze_ctor_kwargs)[0]
            del cfg.maze_ctor_kwargs[k]
            del cur["maze_ctor_kwargs"][k]
        elif op == "endpoint-setitem":
            v = not cfg.endpoint_kwargs.get("deadend_end", False)
            cfg.endpoint_kwargs["deadend_end"] = v
            cur.setdefault("endpoint_kwargs", {})["deadend_end"] = v
        elif op == "filters-append":
            cfg.applied_filters.append(dict(name="path_length", args=(step + 1,), kwargs={}))
            cur.setdefault("applied_filters", []).append({"name": "path_length", "args": [step + 1], "kwargs": {}})
        elif op == "filters-pop":
            if not cfg.applied_filters:
                continue
            cfg.applied_filters.pop()
            cur["applied_filters"].pop()
        elif op == "assign-n_mazes":
            cfg.n_mazes = cfg.n_mazes + 7
            cur["n_mazes"] += 7
        elif op == "assign-name":
            cfg.name = cfg.name + "m"
            cur["name"] += "m"
        elif op == "assign-seed":
            cfg.seed = (cfg.seed + 1) % 2**31
            cur["seed"] = (cur["seed"] + 1) % 2**31
        elif op == "assign-grid_n":
            cfg.grid_n = cfg.grid_n + 1
            cur["grid_n"] += 1
        text2 = json.dumps(cfg.serialize())
        fresh = make_cfg(cur)
        text_f = json.dumps(fresh.serialize())
        h2 = cfg.stable_hash_cfg()
        fn2 = cfg.to_fname()
        events.append(["mut", i, step, op, core.digest(text2), str(h2), fn2, text2 == text_f])
        if text2 != text_f:
            # the harness' picture of the content diverged from the object's (never seen on the unchanged tree); not judged
            return
        h_f = fresh.stable_hash_cfg()
        if h2 != h_f:
            raise core.Violation(
                "C18.hash-depends-only-on-content",
                f"config #{i}: after the in-place step {op!r} the live object hashes to {h2}, but a freshly built configuration with identical serialised text hashes to {h_f} (the object had been hashed before the step)",
            )
        if text2 != text_prev and h2 == h_prev:
            raise core.Violation("C18.hash-discriminates", f"config #{i}: the step {op!r} changed the serialised content but not the hash")
        if fn2 != fname_model(cfg, h_f):
            raise core.Violation("C18.fname", f"config #{i}: after {op!r} to_fname() = {fn2!r}, expected {fname_model(cfg, h_f)!r}")
        h_prev, text_prev = h2, text2


def st_history(spec):
    """returns {"violations": [[oracle,msg,key]...], "events": [...]}; events are compared across processes"""
    import warnings

    warnings.filterwarnings("ignore")
    from maze_dataset import MazeDatasetCollectionConfig

    events: list = []
    viols: list = []
    order = spec["order"]
    specs = spec["configs"]
    live: dict = {}
    by_text: dict = {}
    n_checked = 0
    for i in order:
        cs = specs[i]
        try:
            cfg = make_cfg(cs)
            live[i] = cfg
            given = {"name": cs["name"], "grid_n": cs["grid_n"], "n_mazes": cs["n_mazes"], "seed": cs["seed"]}
            held = {k: getattr(cfg, k) for k in given}
            if held != given:
                raise core.Violation("C18.roundtrip-equal", f"config #{i}: constructed with {given} but holds {held} (so its serialised form describes another configuration)")
            text = json.dumps(cfg.serialize())
            h = cfg.stable_hash_cfg()
            fn = cfg.to_fname()
            events.append(["cfg", i, core.digest(text), str(h), fn])
            # equal serialised content => equal hash
            if text in by_text and by_text[text] != h:
                raise core.Violation("C18.hash-depends-only-on-content", f"two configurations with identical serialised text hash differently ({by_text[text]} vs {h})")
            by_text[text] = h
            if fn != fname_model(cfg, h):
                raise core.Violation("C18.fname", f"to_fname() = {fn!r}, expected {fname_model(cfg, h)!r} (name, grid size, maze count, generator, last five digits of the hash)")
            for through_text in (False, True):
                loaded = roundtrip_check(cfg, through_text, f"config #{i} ({'via JSON text' if through_text else 'serialize/load'})")
                if loaded.stable_hash_cfg() != h:
                    raise core.Violation("C18.hash-depends-only-on-content", f"config #{i}: loaded copy hashes to {loaded.stable_hash_cfg()} instead of {h}")
                if json.dumps(loaded.serialize()) != text:
                    raise core.Violation("C18.roundtrip-equal", f"config #{i}: serialised text of the loaded copy differs from the original's")
            n_checked += 1
            _handed_out_form_phase(i, cs, cfg, text, h, fn)
            events.append(["handed-out-form-edited", i])
            if spec.get("mutate", True) and i % 2 == 1:
                _mutation_phase(spec, i, cs, cfg, h, events)
            if spec.get("variants", True) and i % 3 == 0:
                for field, vs in variants(cs):
                    vc = make_cfg(vs)
                    hv = vc.stable_hash_cfg()
                    events.append(["variant", i, field, str(hv)])
                    if hv == h:
                        raise core.Violation("C18.hash-discriminates", f"config #{i}: changing {field} does not change the hash")
        except core.Violation as v:
            viols.append([v.oracle, v.msg, v.key])
            events.append(["violation", i, v.oracle, v.key])
        except Exception as e:  # noqa: BLE001 - constructing / serialising / loading / hashing / comparing a valid configuration must not raise
            viols.append(["C18.operation-raised", f"config #{i}: {type(e).__name__}: {str(e)[:300]}", None])
            events.append(["violation", i, "C18.operation-raised", type(e).__name__])
    # identity of a composite: a collection configuration must tell apart members that differ in a hashed field even when
    # the members' *abbreviated* identities (file name = name, size, count, generator, five hash digits) coincide - the
    # adversarial pair for anything keyed on the abbreviation; found by a birthday sweep over seeds
    if spec.get("collection_sweep", spec.get("seed", 0) % 3 == 0):
        try:
            base = {"name": "sweep", "grid_n": 4, "n_mazes": 8, "maze_ctor": "gen_dfs", "maze_ctor_kwargs": {}, "endpoint_kwargs": {}, "applied_filters": []}
            s0 = spec.get("seed", 0) % 100000
            seen: dict = {}
            pair = None
            for s in range(s0, s0 + 2500):
                c = make_cfg(dict(base, seed=s))
                fn = c.to_fname()
                if fn in seen:
                    pair = (seen[fn], c)
                    break
                seen[fn] = c
            if pair is None:
                events.append(["collection-colliding-members", None])
            else:
                a, b = pair
                other = make_cfg(dict(base, name="other", seed=1))
                ca = MazeDatasetCollectionConfig(name="coll", maze_dataset_configs=[other, a])
                cb = MazeDatasetCollectionConfig(name="coll", maze_dataset_configs=[other, b])
                ta, tb = json.dumps(ca.serialize()), json.dumps(cb.serialize())
                ha, hb = ca.stable_hash_cfg(), cb.stable_hash_cfg()
                events.append(["collection-colliding-members", a.seed, b.seed, str(ha), str(hb)])
                if a.stable_hash_cfg() == b.stable_hash_cfg():
                    viols.append(["C18.hash-discriminates", f"configurations differing only in seed ({a.seed} vs {b.seed}) have the same full hash", None])
                elif ta != tb and ha == hb:
                    viols.append(["C18.hash-discriminates", f"two collection configurations that differ in one member's seed ({a.seed} vs {b.seed}; the two members' file names coincide, their hashes do not) have the same hash {ha}", None])
                lca = MazeDatasetCollectionConfig.load(json.loads(ta))
                if json.dumps(lca.serialize()) != ta or lca.stable_hash_cfg() != ha:
                    viols.append(["C18.roundtrip-equal", "collection configuration with two members does not round-trip through JSON text", None])
        except Exception as e:  # noqa: BLE001
            viols.append(["C18.operation-raised", f"collection sweep: {type(e).__name__}: {str(e)[:200]}", None])
    # a collection config of the first few live configs round-trips too
    try:
        members = [live[i] for i in sorted(live)[:3]]
        if members:
            cc = MazeDatasetCollectionConfig(name="coll", maze_dataset_configs=members)
            text = json.dumps(cc.serialize())
            lc = MazeDatasetCollectionConfig.load(json.loads(text))
            events.append(["coll", core.digest(text), str(cc.stable_hash_cfg()), cc.to_fname()])
            if json.dumps(lc.serialize()) != text or lc.stable_hash_cfg() != cc.stable_hash_cfg():
                viols.append(["C18.roundtrip-equal", "collection configuration does not round-trip through JSON text", None])
    except Exception as e:  # noqa: BLE001
        events.append(["coll-failed", type(e).__name__])
    muts = [e for e in events if e and e[0] == "mut"]
    return {"violations": viols, "events": events, "checked": n_checked, "mut_steps": len(muts), "mut_unjudged": sum(1 for e in muts if not e[-1])}


FRESH_CODE = r"""
import sys, json, warnings
warnings.filterwarnings('ignore')
sys.path.insert(0, {repo!r}); sys.path.insert(0, {verif!r})
from mdsim.props import c18
print('@@' + json.dumps(c18.st_history(json.loads({spec!r}))))
"""


def fresh_history(spec, hashseed, repo, optimize=False):
    env = dict(os.environ)
    env["PYTHONHASHSEED"] = str(hashseed)
    env.pop("PYTHONOPTIMIZE", None)
    if optimize:
        env["PYTHONOPTIMIZE"] = "1"  # the twin interpreter runs under `python -O`
    code = FRESH_CODE.format(repo=repo, verif=core.VERIF_DIR, spec=json.dumps(spec))
    r = subprocess.run([core.PYTHON, "-c", code], capture_output=True, text=True, env=env, cwd="/tmp", timeout=400)
    for line in r.stdout.splitlines():
        if line.startswith("@@"):
            return json.loads(line[2:])
    raise core.StageFailure("fresh interpreter produced no result: " + r.stderr[-1500:])


def run(spec: dict, ctx) -> dict:
    log = core.EventLog()
    res = core.stage(st_history, spec, timeout=500.0)
    log.add("events", res["events"])
    stats = {"configs_checked": res["checked"], "inplace_mutation_steps_judged": res.get("mut_steps", 0) - res.get("mut_unjudged", 0), "inplace_mutation_steps_unjudged": res.get("mut_unjudged", 0)}
    if "fresh" in spec:
        r2 = fresh_history(spec, spec["fresh"]["hashseed"], ctx.repo, optimize=bool(spec["fresh"].get("optimize")))
        stats["probe_fresh_interpreter"] = 1
        if r2["events"] != res["events"]:
            bad = next((a for a, b in zip(res["events"], r2["events"]) if a != b), None)
            return core.violation(
                "C18.cross-process",
                f"the same history gives different hashes/names in a fresh interpreter with PYTHONHASHSEED={spec['fresh']['hashseed']} than in this one ({ctx.hashseed}); first differing entry here: {bad}",
                log,
                stats=stats,
                spec=spec,
            )
    if res["violations"]:
        # report the first unknown one; known ones are reported individually below by the generic machinery
        o, m, k = res["violations"][0]
        for o2, m2, k2 in res["violations"]:
            if k2 is None:
                o, m, k = o2, m2, k2
                break
        return core.violation(o, m, log, key=k, stats=stats, spec=spec, events_digest=core.digest(res["events"]), hist_id=spec.get("hist_id"))
    return core.ok(log, stats=stats, nontrivial=log.digest() + ":" + str(spec.get("slot")), events_digest=core.digest(res["events"]), hist_id=spec.get("hist_id"))


def post(pool, pairs, tier, rng):
    by_hist: dict = {}
    for s, r in pairs:
        if isinstance(r, dict) and r.get("events_digest") and s.get("hist_id") is not None:
            by_hist.setdefault(s["hist_id"], {}).setdefault(r["events_digest"], []).append(s)
    more = []
    agree = 0
    rerun = []
    for hid, d in by_hist.items():
        if len(d) == 1:
            agree += 1
            continue
        specs = [v[0] for v in d.values()]
        rerun.append((hid, dict(specs[0], fresh={"hashseed": pool.hashseeds[(specs[1].get("slot") or 0) % len(pool.hashseeds)], "optimize": ((specs[1].get("slot") or 0) % len(pool.hashseeds)) in pool.optimize_slots})))
    rerun = rerun[:4]  # self-contained cross-process scenarios (fresh interpreter with the other server's hash seed)
    rs = pool.run([{"prop": PROP, "tier": tier, "timeout": JOB_TIMEOUT, "spec": s0, "slot": s0.get("slot")} for _, s0 in rerun])
    for (hid, s0), r in zip(rerun, rs):
        if isinstance(r, dict) and r.get("status") == "violation":
            more.append((s0, r))
        else:
            more.append((s0, {"__harness__": "cross-process log mismatch did not reproduce in a fresh interpreter", "hist_id": hid}))
    return more, {"histories_agreeing_across_all_hashseeds": agree, "histories": len(by_hist)}


# ---- generation ------------------------------------------------------------------------------------------
def rand_cfg(rng: random.Random, tuples: bool) -> dict:
    gen = rng.choice(_ds.GENS)
    n = rng.randint(2, 9)
    kw = _ds.rand_ctor_kwargs(rng, gen, n)
    if tuples and gen != "gen_wilson" and rng.random() < 0.5:
        kw["start_coord"] = {"__tuple__": [rng.randrange(n), rng.randrange(n)]}
    if gen != "gen_wilson" and rng.random() < 0.25:
        # an explicitly passed None is a generator argument too (it must survive the round trip and take part in the hash)
        legal = {"gen_dfs": ["accessible_cells", "max_tree_depth", "start_coord"], "gen_prim": ["accessible_cells", "max_tree_depth", "start_coord"], "gen_percolation": ["start_coord"], "gen_dfs_percolation": ["accessible_cells", "max_tree_depth", "start_coord"]}[gen]
        k = rng.choice(legal)
        if k not in kw:
            kw[k] = None
    filters = []
    for _ in range(rng.choice([0, 0, 1, 2])):
        filters.append(
            rng.choice(
                [
                    {"name": "path_length", "args": [rng.randint(1, 5)], "kwargs": {}},
                    {"name": "start_end_distance", "args": [], "kwargs": {"min_distance": rng.randint(0, 4)}},
                    {"name": "remove_duplicates", "args": [rng.choice([1, 2]), rng.choice([1, 3])], "kwargs": {}},
                    {"name": "cut_percentile_shortest", "args": [float(rng.choice([10, 25, 33.3]))], "kwargs": {}},
                    {"name": "collect_generation_meta", "args": [], "kwargs": {}},
                ]
            )
        )
    if filters and rng.random() < 0.2:
        filters.append(json.loads(json.dumps(filters[-1])))  # the same filter recorded twice in a row (legal: e.g. two percentile cuts)
    return {
        "name": rng.choice(["t", "sim test", "a/b:c", "näme", "x" * 12, "cfg-1.0", "UPPER lower", "long-" + "n" * rng.choice([90, 120, 200]), "", "a.b", " lead", "trail "]),
        "grid_n": n,
        "n_mazes": rng.choice([1, 5, 10, 999, 1000, 1234, 10000, 123456, 10**6]),
        "maze_ctor": gen,
        "maze_ctor_kwargs": kw,
        "endpoint_kwargs": _ds.rand_endpoint_kwargs(rng, n, True),
        "seed": rng.choice([42, 0, 1, 2**31 - 1, rng.randrange(2**31), 2**31, 2**31 + rng.randrange(2**31), 2**32 - 1]),  # every value numpy/torch accept as a seed
        "applied_filters": filters,
    }


def gen_specs(rng: random.Random, tier: str, n: int) -> list[dict]:
    K = HASHSEED_SLOTS[tier]
    specs = []
    hists = []
    for hid in range(n):
        cfgs = [rand_cfg(rng, tuples=(hid % 4 == 0)) for _ in range(rng.randint(10, 25))]
        # equal-content twins constructed at different points of the history
        for _ in range(3):
            cfgs.append(json.loads(json.dumps(rng.choice(cfgs))))
        order = list(range(len(cfgs)))
        rng.shuffle(order)
        hists.append({"seed": rng.getrandbits(48), "configs": cfgs, "order": order, "hist_id": hid})
    for h in hists:
        for slot in range(K):
            specs.append(dict(h, slot=slot))
    for i in range(FRESH[tier]):
        specs.append(dict(hists[i % len(hists)], slot=i % K, fresh={"hashseed": rng.randrange(1, 2**32 - 1), "optimize": i % 2 == 1}, hist_id=None))
    return specs


def shrink(spec: dict, result: dict):
    order = spec["order"]
    n = len(order)
    span = max(1, n // 2)
    while span >= 1:
        for start in range(0, n, span):
            cand = order[:start] + order[start + span :]
            if cand and len(cand) < n:
                yield dict(spec, order=cand)
        span //= 2
    if spec.get("variants", True):
        yield dict(spec, variants=False)
    if len(order) == 1:
        i = order[0]
        c = spec["configs"][i]
        for fld, val in (("applied_filters", []), ("endpoint_kwargs", {}), ("name", "t"), ("n_mazes", 1), ("seed", 42), ("grid_n", 2)):
            if c.get(fld) != val:
                cs = list(spec["configs"])
                cs[i] = dict(c, **{fld: val})
                yield dict(spec, configs=cs)


def sample_of(spec, result):
    return {"hist_id": spec.get("hist_id"), "slot": spec.get("slot"), "n_configs": len(spec["configs"]), "first_config": spec["configs"][spec["order"][0]], "fresh": spec.get("fresh"), "events_digest": result.get("events_digest")}
