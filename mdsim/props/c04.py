"""C04 — serial dataset generation is a pure function of the configuration (DESIGN §3 C04).

A history of several library/RNG users sharing one process is generated and interleaved by the seeded scheduler
at API-call granularity; probes of the target configuration are compared with *golden* digests produced in
pristine processes (same hash-seed server, other hash-seed servers, truly fresh interpreters).
"""

from __future__ import annotations

import json
import os
import random
import subprocess

from mdsim import core
from mdsim.props import _ds
from mdsim.props import c08 as filt
from mdsim.seams import pool as spool

PROP = "C04"
LEVEL = "exploration"
TECHNIQUE = "deterministic simulation: seeded interleavings of global-RNG users / re-seeding library calls before the probe, across interpreter processes with simulator-chosen PYTHONHASHSEED; golden-run digest equality + filter reference model"
RUNS = {"quick": 450, "thorough": 48000}
HASHSEED_SLOTS = {"quick": 3, "thorough": 12}
OPTIMIZE_SLOTS = {"quick": [2], "thorough": [2, 5, 8, 11]}  # hash-seed slots whose interpreter runs under `python -O` (asserts stripped)
FRESH = {"quick": 8, "thorough": 32}
JOB_TIMEOUT = 600.0


def minimise_budget(spec):
    return 24 if "fresh" in spec else 160

COMPONENTS = {
    "real": ["MazeDataset.generate (serial)", "MazeDataset.from_config(load_local=False, save_local=False)", "_apply_filters_from_config + filters", "MazeDatasetConfig construction/load (set_reproducibility)", "all generators", "python random / numpy global RNG / torch RNG / generators.numpy_rng (drawn from and re-seeded as noise)", "tokenizers as RNG users"],
    "stub": ["multiprocessing.Pool for *noise* generate calls (SimPool)"],
}
RULE = (
    "one run = one history (2-3 logical clients: RNG draws/re-seeds, other config constructions/loads, other generate/from_config calls "
    "serial or pooled, filters/deepcopies, tokenisation, threshold flips) with 1-2 probes of the target configuration, in a process with a "
    "simulator-chosen PYTHONHASHSEED; distinct = distinct history digests; non-trivial = >= 1 noise op executed between the construction "
    "of the target configuration and a probe"
)
LEVEL_TEXT = (
    "Seeded search over prior histories of everything that shares the three global RNGs and the re-seeding side effects of config construction/loading, in K interpreters with different PYTHONHASHSEED plus truly fresh interpreters; each probe must reproduce the golden digest of a pristine process bit for bit, filtered probes must equal the filter reference model applied to the golden unfiltered dataset, and the caller's configuration object must be untouched. Noise includes near neighbours of the target generated beforehand, exceptions in the middle of earlier operations, cache reads that fail on a damaged file and fall back to regeneration, and a few long histories; targets include float-proportion arguments, sizes up to 10000 mazes and default-argument probes; one interpreter slot in three runs under python -O. Sampling, not proof.",
    "Trusted: sha256; filter reference model of C08; configurations with seed=None are excluded (their seed is drawn from OS entropy, which no simulator owns). One history in five runs in a process that is itself a worker of a pool the caller runs (non-empty multiprocessing identity): serial generation there must give the same dataset as in a main process.",
)


# ---- digests -------------------------------------------------------------------------------------
def ds_records(ds):
    return [_ds.maze_record(m) for m in ds.mazes]


def st_golden(cfgspec):
    "pristine process: serial generation of the unfiltered configuration"
    from maze_dataset import MazeDataset

    plain = dict(cfgspec, applied_filters=[])
    try:
        ds = MazeDataset.generate(_ds.make_cfg(plain), gen_parallel=False)
    except Exception as e:  # noqa: BLE001
        return {"raised": type(e).__name__, "documented": _ds.is_documented_error(e), "msg": str(e)[:200]}
    return {"records": ds_records(ds)}


FRESH_CODE = r"""
import sys, json, warnings
warnings.filterwarnings('ignore')
sys.path.insert(0, {repo!r}); sys.path.insert(0, {verif!r})
from mdsim.props import c04
print('@@' + json.dumps(c04.st_golden(json.loads({spec!r}))))
"""


def fresh_interpreter_golden(cfgspec, hashseed, repo, optimize=False):
    env = dict(os.environ)
    env["PYTHONHASHSEED"] = str(hashseed)
    env.pop("PYTHONOPTIMIZE", None)
    if optimize:
        env["PYTHONOPTIMIZE"] = "1"  # the twin interpreter runs under `python -O`
    env["TQDM_DISABLE"] = "1"
    code = FRESH_CODE.format(repo=repo, verif=core.VERIF_DIR, spec=json.dumps(cfgspec))
    r = subprocess.run([core.PYTHON, "-c", code], capture_output=True, text=True, env=env, cwd="/tmp", timeout=300)
    for line in r.stdout.splitlines():
        if line.startswith("@@"):
            return json.loads(line[2:])
    raise core.StageFailure("fresh interpreter produced no result: " + r.stderr[-1500:])


# ---- the history, executed in one simulated process ---------------------------------------------------
def st_history(spec, golden):
    import numpy as np
    import torch
    from maze_dataset import MazeDataset, MazeDatasetConfig
    from maze_dataset.dataset import maze_dataset as mdm
    from maze_dataset.generation import generators

    events: list = []
    stats: dict = {}
    # S-PROC: the process the history runs in may be a worker of a multiprocessing pool that the *caller* runs (one dataset
    # per task, generated serially in each worker): "another process" in the statement's words
    world = spool.PoolWorld(spec["seed"], "fork", 3, 1, base_identity=(spec["proc_identity"],) if spec.get("proc_identity") else ())
    T = spec["cfg"]
    cfg_T = None
    others: list = []
    noise_since_T = 0
    viol = None

    def bump(k):
        stats[k] = stats.get(k, 0) + 1

    if spec.get("proc_identity"):
        bump("probe_history_in_a_callers_pool_worker")

    def expect_filtered():
        recs = golden["records"]
        m = filt.Model(list(recs), [None] * len(recs), [], None, {})
        for f in T.get("applied_filters", []):
            try:
                sel = filt.model_filter(m, f)
            except core.NotJudged:
                return "undefined"  # e.g. the percentile of an empty dataset: the chain has no documented result
            if isinstance(sel, dict):
                if len(sel["alternatives"]) > 1:
                    return None
                sel = sel["alternatives"][0]
            m = filt.Model([m.records[i] for i in sel], [None] * len(sel), [], None, {})
        return m.records

    with spool.Installed(world):
        for op in spec["ops"]:
            k = op[0]
            try:
                if k == "draw":
                    n = op[2]
                    if op[1] == "py":
                        [random.random() for _ in range(n)]
                    elif op[1] == "np":
                        np.random.rand(n)
                    elif op[1] == "torch":
                        torch.rand(n)
                    else:
                        generators.numpy_rng.random(n)
                    events.append(["draw", op[1], n])
                elif k == "seed":
                    if op[1] == "py":
                        random.seed(op[2])
                    elif op[1] == "np":
                        np.random.seed(op[2] % 2**32)
                    else:
                        torch.manual_seed(op[2])
                    events.append(["seed", op[1], op[2]])
                elif k == "mkcfg":
                    _ds.make_cfg(op[1])
                    events.append(["mkcfg", op[1]["seed"]])
                elif k == "load_cfg":
                    MazeDatasetConfig.load(_ds.make_cfg(op[1]).serialize())
                    events.append(["load_cfg", op[1]["seed"]])
                elif k == "generate":
                    c = _ds.make_cfg(op[1])
                    if op[3] == "from_config":
                        d = MazeDataset.from_config(c, load_local=False, save_local=False, gen_parallel=op[2], pool_kwargs=dict(op[4]))
                    else:
                        d = MazeDataset.generate(c, gen_parallel=op[2], pool_kwargs=dict(op[4]))
                    others.append(d)
                    events.append(["generate", op[1]["seed"], op[2], len(d)])
                elif k == "cache_roundtrip":
                    # another user of the library saves and re-loads a dataset through the on-disk cache (load() re-seeds)
                    c = _ds.make_cfg(op[1])
                    base = os.path.join(spec["scratch"], "cache%d" % len(events))
                    MazeDataset.from_config(c, local_base_path=base)
                    damage = op[2] if len(op) > 2 else None
                    if damage:
                        # ... and finds the file damaged the next time (a writer killed half-way, a disk that lost the tail, a
                        # file from another tool): the failed read and the regeneration that follows are history like any other
                        for fn in sorted(os.listdir(base)):
                            fp = os.path.join(base, fn)
                            if os.path.isfile(fp):
                                data = open(fp, "rb").read()
                                with open(fp, "wb") as fh:
                                    fh.write({"trunc": data[: len(data) // 2], "empty": b"", "garbage": b"not a zip archive" * 8, "tail": data[:-1]}[damage])
                        bump("probe_noise_failed_cache_read")
                    others.append(MazeDataset.from_config(_ds.make_cfg(op[1]), local_base_path=base))
                    events.append(["cache_roundtrip", op[1]["seed"], damage])
                elif k == "filter_other":
                    if others:
                        d = others[op[1] % len(others)]
                        if op[2] == "deepcopy":
                            import copy

                            others.append(copy.deepcopy(d))
                        else:
                            others.append(d.filter_by.path_length(op[3]))
                        events.append(["filter_other", op[2]])
                elif k == "tokenize":
                    if others and len(others[op[1] % len(others)]) > 0:
                        from maze_dataset.tokenization import MazeTokenizerModular

                        others[op[1] % len(others)][0].as_tokens(MazeTokenizerModular())
                        events.append(["tokenize"])
                elif k == "threshold":
                    mdm.set_serialize_minimal_threshold(op[1])
                    events.append(["threshold", op[1]])
                elif k == "construct_T":
                    cfg_T = _ds.make_cfg(T)
                    noise_since_T = 0
                    events.append(["construct_T"])
                    continue
                elif k == "probe":
                    if cfg_T is None:
                        cfg_T = _ds.make_cfg(T)
                        noise_since_T = 0
                    before = (_ds.cfg_key(cfg_T, drop_n_mazes=False), id(cfg_T.applied_filters), json.dumps(_ds._norm(cfg_T.serialize()), sort_keys=True, default=str))
                    exc = None
                    try:
                        if op[1] == "generate":
                            out = MazeDataset.generate(cfg_T, gen_parallel=False)
                        elif op[1] == "generate-default":
                            out = MazeDataset.generate(cfg_T)  # serial by default
                        else:
                            out = MazeDataset.from_config(cfg_T, load_local=False, save_local=False)
                    except Exception as e:  # noqa: BLE001
                        exc = e
                    after = (_ds.cfg_key(cfg_T, drop_n_mazes=False), id(cfg_T.applied_filters), json.dumps(_ds._norm(cfg_T.serialize()), sort_keys=True, default=str))
                    if noise_since_T:
                        bump("probe_noise_between_construction_and_probe")
                    bump("probes")
                    if before != after:
                        what = "fields " + str({k: (before[0][k], after[0].get(k)) for k in before[0] if before[0][k] != after[0].get(k)}) if before[0] != after[0] else ("its applied_filters list object was replaced" if before[1] != after[1] else "its serialised form changed")
                        viol = ["C04.caller-config-modified", f"probe {op[1]} modified the configuration object passed in: {what}"]
                        break
                    if "raised" in golden:
                        if exc is None:
                            viol = ["C04.golden-raises-probe-returns", f"pristine generation raises {golden['raised']} but the probe after this history returned a dataset"]
                            break
                        if type(exc).__name__ != golden["raised"]:
                            viol = ["C04.different-exception", f"pristine generation raises {golden['raised']}, probe raised {type(exc).__name__}: {str(exc)[:160]}"]
                            break
                        events.append(["probe-raised", type(exc).__name__])
                        continue
                    if exc is not None:
                        if op[1] == "from_config" and T.get("applied_filters") and isinstance(exc, (IndexError, ValueError)) and not _ds.is_solver_failure(exc) and expect_filtered() == "undefined":
                            # a filter chain that is undefined on its input (percentile of an empty dataset): not C04's business
                            events.append(["probe-filter-raised", type(exc).__name__])
                            bump("not_judged_filter-chain-raised")
                            continue
                        viol = ["C04.probe-raised", f"pristine generation succeeds but the probe ({op[1]}) raised {type(exc).__name__}: {str(exc)[:200]}"]
                        break
                    recs = ds_records(out)
                    if op[1] in ("generate", "generate-default") or not T.get("applied_filters"):
                        if recs != golden["records"]:
                            nd = sum(1 for a, b in zip(recs, golden["records"]) if a != b) + abs(len(recs) - len(golden["records"]))
                            viol = ["C04.not-reproducible", f"probe {op[1]} after this history differs from the pristine run in {nd} of {len(golden['records'])} mazes"]
                            break
                    else:
                        exp = expect_filtered()
                        if exp == "undefined":
                            bump("not_judged_filter-chain-undefined")
                            events.append(["probe", op[1], "undefined-chain"])
                            continue
                        if exp is None:
                            bump("not_judged_percentile-boundary")
                        elif recs != exp:
                            viol = ["C04.filtered-from-config", f"from_config with filters {[f['name'] for f in T['applied_filters']]} returned {len(recs)} mazes; model applied to the pristine dataset gives {len(exp)}"]
                            break
                        got_f = _ds.cfg_key(out.cfg)["applied_filters"]
                        want_f = [filt.norm_filter(f) for f in T["applied_filters"]]
                        if got_f != want_f:
                            viol = ["C04.filters-recorded-in-order", f"result records filters {got_f}, configured {want_f}"]
                            break
                        bump("probe_filtered_from_config")
                    events.append(["probe", op[1], core.digest(recs)])
                    continue
            except Exception as e:  # noqa: BLE001 - noise ops may fail (documented generation errors); they are only noise
                events.append(["noise-failed", k, type(e).__name__])
                bump("noise_failed")
                bump("noise_failed_" + k + "_" + type(e).__name__)
                continue
            noise_since_T += 1
    return {"violation": viol, "events": events, "stats": stats}


def run(spec: dict, ctx) -> dict:
    log = core.EventLog()
    golden = core.stage(st_golden, spec["cfg"])
    log.add("golden", core.digest(golden))
    stats: dict = {}
    gold_digest = core.digest(golden)
    if golden.get("raised") and not golden.get("documented"):
        if golden["raised"] == "ValueError" and "could not be found" in golden.get("msg", ""):
            pass  # C03's business; still usable as a golden (same exception expected)
    if "fresh" in spec:
        g2 = fresh_interpreter_golden(spec["cfg"], spec["fresh"]["hashseed"], ctx.repo, optimize=bool(spec["fresh"].get("optimize")))
        stats["probe_fresh_interpreter_golden"] = 1
        if g2 != golden:
            return core.violation(
                "C04.cross-process",
                f"serial generation in a fresh interpreter (PYTHONHASHSEED={spec['fresh']['hashseed']}) differs from the same generation in this process (PYTHONHASHSEED={ctx.hashseed})",
                log,
                stats=stats,
                spec=spec,
            )
    res = core.stage(st_history, dict(spec, scratch=ctx.scratch), golden, timeout=500.0)
    log.add("history", res["events"])
    for k, v in res["stats"].items():
        stats[k] = stats.get(k, 0) + v
    if res["violation"]:
        return core.violation(res["violation"][0], res["violation"][1], log, stats=stats, spec=spec, golden_digest=gold_digest, cfg_digest=core.digest(spec["cfg"]))
    nontrivial = log.digest() if stats.get("probe_noise_between_construction_and_probe") else None
    return core.ok(log, stats=stats, nontrivial=nontrivial, golden_digest=gold_digest, cfg_digest=core.digest(spec["cfg"]))


def post(pool, pairs, tier, rng):
    "cross-process oracle: goldens of one configuration must agree across all hash-seed servers"
    by_cfg: dict = {}
    for s, r in pairs:
        if isinstance(r, dict) and r.get("golden_digest"):
            by_cfg.setdefault(r["cfg_digest"], {}).setdefault(r["golden_digest"], []).append(s)
    more = []
    n_multi = 0
    rerun = []
    for cd, gd in by_cfg.items():
        slots = {s.get("slot") for v in gd.values() for s in v}
        if len(slots) > 1:
            n_multi += 1
        if len(gd) > 1:
            specs = [v[0] for v in gd.values()]
            rerun.append((cd, sorted(gd), dict(specs[0], fresh={"hashseed": pool.hashseeds[(specs[1].get("slot") or 0) % len(pool.hashseeds)], "optimize": ((specs[1].get("slot") or 0) % len(pool.hashseeds)) in pool.optimize_slots})))
    rerun = rerun[:4]  # self-contained cross-process scenarios (fresh interpreter with the other server's hash seed)
    rs = pool.run([{"prop": PROP, "tier": tier, "timeout": JOB_TIMEOUT, "spec": s0, "slot": s0.get("slot")} for _, _, s0 in rerun])
    for (cd, gds, s0), r in zip(rerun, rs):
        if isinstance(r, dict) and r.get("status") == "violation":
            more.append((s0, r))
        else:
            more.append((s0, {"__harness__": "cross-process golden mismatch did not reproduce in a fresh interpreter", "goldens": gds}))
    return more, {"configurations_with_goldens_from_several_hashseeds": n_multi, "distinct_target_configurations": len(by_cfg)}


# ---- generation of histories (main process) -----------------------------------------------------------------
def near_neighbour(rng: random.Random, T: dict, how: str | None = None) -> list:
    "a generate op for a configuration that differs from the target T in one respect only"
    c = json.loads(json.dumps(T))
    c["applied_filters"] = []
    how = how or rng.choice(["same", "retyped-kwargs", "n_mazes", "seed", "generator", "endpoints"])
    if how == "retyped-kwargs":
        kw = c.get("maze_ctor_kwargs", {})
        for k in sorted(kw):
            v = kw[k]
            if isinstance(v, bool):
                continue
            if isinstance(v, float) and v == int(v):
                kw[k] = int(v)
            elif isinstance(v, int):
                kw[k] = float(v) if v <= 1 else v
    elif how == "n_mazes":
        c["n_mazes"] = max(1, min(8, c["n_mazes"] + rng.choice([-1, 1, 2])))
    elif how == "seed":
        c["seed"] = (c.get("seed", 42) + 1) % 2**31
    elif how == "generator":
        c["maze_ctor"] = rng.choice([g for g in _ds.GENS if g != c["maze_ctor"]])
        c["maze_ctor_kwargs"] = {}
    elif how == "endpoints":
        c["endpoint_kwargs"] = _ds.rand_endpoint_kwargs(rng, c["grid_n"], True)
    if c["n_mazes"] > 20:
        c["n_mazes"] = rng.randint(1, 6)
    return ["generate", c, False, rng.choice(["generate", "from_config"]), {}]


def rand_noise(rng: random.Random, T: dict) -> list:
    r = rng.random()
    if r < 0.22:
        return ["draw", rng.choice(["py", "np", "torch", "nprng"]), rng.randint(1, 50)]
    if r < 0.36:
        return ["seed", rng.choice(["py", "np", "torch"]), rng.choice([0, 1, 42, T.get("seed", 42), rng.randrange(2**31)])]
    if r < 0.44:
        c = _ds.rand_cfgspec(rng, max_n=4, max_mazes=3, filters=False, rich_endpoints=False)
        return [rng.choice(["mkcfg", "load_cfg"]), c]
    if r < 0.50:
        # a near neighbour of the target generated beforehand: anything the library memoises under a key that is only *part*
        # of a configuration (grid size, an argument's value regardless of its type, the name, ...) is shared with the probe
        return near_neighbour(rng, T)
    if r < 0.72:
        c = _ds.rand_cfgspec(rng, max_n=5, max_mazes=4, filters=rng.random() < 0.3, rich_endpoints=False)
        par = rng.random() < 0.3
        return ["generate", c, par, rng.choice(["generate", "from_config"]), ({"processes": rng.randint(1, 3)} if par else {})]
    if r < 0.79:
        c = _ds.rand_cfgspec(rng, max_n=4, max_mazes=3, filters=False, rich_endpoints=False)
        return ["cache_roundtrip", c, rng.choice([None, "trunc", "empty", "garbage", "tail"])]
    if r < 0.82:
        return ["filter_other", rng.randrange(4), rng.choice(["deepcopy", "path_length"]), rng.randint(1, 3)]
    if r < 0.92:
        return ["tokenize", rng.randrange(4)]
    return ["threshold", rng.choice([None, 1, 100])]


def gen_specs(rng: random.Random, tier: str, n: int) -> list[dict]:
    K = HASHSEED_SLOTS[tier]
    n_cfg = max(1, n // (3 * K))
    specs = []
    cfgs = []
    for ci in range(n_cfg):
        T = _ds.rand_cfgspec(rng, max_n=6, max_mazes=8, filters=True, rich_endpoints=rng.random() < 0.3, big_mazes=0.06, force="float_kwargs" if ci % 8 == 3 else None)
        T["applied_filters"] = [f for f in T["applied_filters"]]
        cfgs.append(T)
    for T in cfgs:
        for slot in range(K):
            for _h in range(3):
                ops: list = []
                early = rng.random() < 0.5
                if early:
                    ops.append(["construct_T"])
                long_history = rng.random() < 0.04  # state that accumulates a little with every call needs many calls to show
                for _ in range(rng.randint(40, 70) if long_history else rng.randint(1, 8)):
                    ops.append(rand_noise(rng, T))
                if _h == 0 and any(isinstance(v, (int, float)) and not isinstance(v, bool) and v == int(v) and v <= 1 for v in T.get("maze_ctor_kwargs", {}).values()):
                    # the same configuration with that argument spelled in the other numeric type, generated just before
                    ops.insert(rng.randrange(len(ops) + 1) if not early else rng.randrange(1, len(ops) + 1), near_neighbour(rng, T, "retyped-kwargs"))
                if not early and rng.random() < 0.5:
                    ops.append(["construct_T"])
                    for _ in range(rng.randint(0, 3)):
                        ops.append(rand_noise(rng, T))
                ops.append(["probe", rng.choice(["generate", "generate-default", "from_config"])])
                if rng.random() < 0.5:
                    for _ in range(rng.randint(0, 3)):
                        ops.append(rand_noise(rng, T))
                    ops.append(["probe", rng.choice(["generate", "generate-default", "from_config"])])
                s = {"seed": rng.getrandbits(48), "cfg": T, "ops": ops, "slot": slot}
                if len(specs) % 5 == 2:
                    s["proc_identity"] = [1, 2, 3, 7, 40][(len(specs) // 5) % 5]
                specs.append(s)
    # one very large dataset (sizes are a dimension of their own: 100 selects another storage format, 1000 another file-name
    # abbreviation; anything that switches behaviour at "big" must still give the serial result by default)
    Th = {"name": "huge", "grid_n": 2, "n_mazes": 10000, "maze_ctor": "gen_dfs", "maze_ctor_kwargs": {}, "endpoint_kwargs": {}, "seed": rng.choice([42, 7]), "applied_filters": []}
    for slot in range(min(K, 3)):
        specs.append({"seed": rng.getrandbits(48), "cfg": Th, "ops": [["draw", rng.choice(["py", "np"]), rng.randint(1, 20)], ["probe", ["from_config", "generate-default", "from_config"][slot]]], "slot": slot})
    for i in range(FRESH[tier]):
        T = cfgs[i % len(cfgs)]
        specs.append({"seed": rng.getrandbits(48), "cfg": T, "ops": [rand_noise(rng, T), ["probe", "generate"]], "slot": i % K, "fresh": {"hashseed": rng.randrange(1, 2**32 - 1), "optimize": i % 2 == 1}})
    return specs


def shrink(spec: dict, result: dict):
    ops = spec["ops"]
    for i in range(len(ops)):
        if ops[i][0] != "probe" or sum(1 for o in ops if o[0] == "probe") > 1:
            yield dict(spec, ops=ops[:i] + ops[i + 1 :])
    if spec.get("proc_identity"):
        yield {k: v for k, v in spec.items() if k != "proc_identity"}
    T = spec["cfg"]
    for fld, val in (("applied_filters", []), ("endpoint_kwargs", {}), ("maze_ctor_kwargs", {}), ("n_mazes", max(1, T["n_mazes"] // 2)), ("grid_n", max(2, T["grid_n"] - 1)), ("name", "t")):
        if T.get(fld) != val:
            yield dict(spec, cfg=dict(T, **{fld: val}))
    for i, op in enumerate(ops):
        if op[0] == "draw" and op[2] > 1:
            yield dict(spec, ops=ops[:i] + [["draw", op[1], 1]] + ops[i + 1 :])


def sample_of(spec, result):
    return {"cfg": spec["cfg"], "slot": spec.get("slot"), "proc_identity": spec.get("proc_identity"), "ops": [[o[0]] + [x if not isinstance(x, dict) else "<cfg>" for x in o[1:]] for o in spec["ops"]], "fresh": spec.get("fresh"), "digest": result.get("digest")}
