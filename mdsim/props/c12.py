"""C12 — generation metadata tells the truth about reachability (DESIGN §3 C12). Same engine/seam as C01."""

from __future__ import annotations

import math
import random

import numpy as np

from mdsim import core
from mdsim.models import graph
from mdsim.props import _gen

PROP = "C12"
LEVEL = "exploration"
TECHNIQUE = "deterministic simulation: seeded search over owned RNG draw schedules (S-RNG seam) + reachability reference model"
RUNS = {"quick": 30000, "thorough": 1000000}
BATCH = {"quick": 100, "thorough": 250}
COMPONENTS = {
    "real": ["maze_dataset.generation.generators (all five)", "LatticeMaze.get_connected_component", "LatticeMaze.generate_random_path", "LatticeMaze.find_shortest_path"],
    "stub": ["random.randint/choice, numpy.random.randint/choice/rand (owned by SimRNG in 'owned' runs; real+seeded in 'real' runs)"],
}
RULE = (
    "one run = one generator call (swarm concentrated on constrained arguments: accessible_cells count/fraction, max_tree_depth, do_forks, "
    "randomized_stack, start_coord incl. last row/column, p) followed by get_connected_component and generate_random_path (plain, and in every second run also "
    "restricted by explicit candidate lists / dead-end / distinct-endpoint arguments dealt from the whole grid) under the same RNG schedule; distinct = distinct (spec, output array, metadata) digests; non-trivial = >= 2 cells and at least one non-default argument"
)
LEVEL_TEXT = (
    "Seeded search over generator arguments and the generator's own random choices (owned RNG with adversarial per-site policies, plus real seeded twins); the recorded metadata is compared with a union-find/BFS reachability model of the returned array, and endpoint sampling is run under the same schedule, both unrestricted and restricted by caller-supplied candidate lists (cells inside and outside the recorded component), dead-end and distinct-endpoint arguments. Arguments are also varied in how the caller spells them (shape as narrow-typed array / list / tuple or as one array rewritten in place for every grid of a batch process, start cell as a caller-owned buffer overwritten after the call), grids include sides beyond 128 cells, and a violating run is reported together with the runs that preceded it in its process. Sampling, not proof.",
    "Trusted: NumPy, the SimRNG model of the RNG entry points (values checked against the API's support; real-RNG twin in every batch).",
)


def gen_specs(rng: random.Random, tier: str, n: int) -> list[dict]:
    specs = []
    for i in range(n):
        seed = rng.getrandbits(48)
        big = (tier == "thorough" and i % 400 == 0) or i % 100 == 57  # 16..20-cell sides: 128+ cells
        spec = _gen.gen_spec(rng, seed, 7 if tier == "quick" else 12, constrained_bias=0.85, big=big, long=(i % 100 == 7))
        r, c = spec["shape"]
        if r > 1 and c > 1 and i % 2 == 1:
            spec["path_kwargs"] = gen_path_kwargs(rng, r, c, force_lists=(i % 8 == 3))
        specs.append(spec)
    return specs


def gen_path_kwargs(rng: random.Random, r: int, c: int, force_lists: bool = False) -> dict:
    """arguments of the endpoint draw (the consequence clause speaks of *drawn endpoints*, however the caller restricts the
    draw): explicit candidate lists are dealt from the whole grid, so on a constrained maze they mix cells inside and outside
    the recorded component, incl. cells sharing a row or a column with it"""
    pk: dict = {}

    def cells():
        k = rng.choice([1, 2, 3, 4, 6, 10])
        return [[rng.randrange(r), rng.randrange(c)] for _ in range(k)]

    if force_lists or rng.random() < 0.55:
        pk["allowed_start"] = cells()
    if force_lists or rng.random() < 0.55:
        pk["allowed_end"] = cells()
    if rng.random() < 0.25:
        pk["deadend_start"] = True
    if rng.random() < 0.25:
        pk["deadend_end"] = True
    if rng.random() < 0.3:
        pk["endpoints_not_equal"] = True
    if not pk:
        pk["deadend_end"] = True
    pk["lists_as"] = rng.choice(["list", "tuples"])  # (arrays are not accepted by the unchanged tree: the argument is typed as a list of coordinates)
    return pk


def _cells(v) -> set | None:
    if v is None:
        return None
    if isinstance(v, (set, frozenset, list, tuple)):
        return {(int(a), int(b)) for a, b in v}
    arr = np.asarray(v)
    if arr.size == 0:
        return set()
    return {(int(a), int(b)) for a, b in arr.reshape(-1, 2)}


def _after(maze, path_kwargs=None):
    "consequence clause, executed under the same RNG schedule as the generator"
    comp = maze.get_connected_component()
    path = None
    err = None
    restricted = None
    r, c = maze.connection_list.shape[1:]
    if r > 1 and c > 1:
        try:
            path = maze.generate_random_path()
        except Exception as e:  # noqa: BLE001
            err = e
        if path_kwargs:
            pk = {k: v for k, v in path_kwargs.items() if k != "lists_as"}
            for k in ("allowed_start", "allowed_end"):
                if k in pk:
                    if path_kwargs.get("lists_as") == "tuples":
                        pk[k] = [tuple(x) for x in pk[k]]
            try:
                restricted = ("path", maze.generate_random_path(**pk))
            except Exception as e:  # noqa: BLE001
                restricted = ("err", e)
    return comp, path, err, restricted


def judge(spec: dict, out: _gen.GenOutcome, log: core.EventLog, stats: dict):
    gen = spec["gen"]
    r, c = spec["shape"]
    total = r * c
    kw = spec["kwargs"]
    if out.budget_exceeded:
        raise core.NotJudged("draw-budget")
    if out.exc is not None:
        raise core.NotJudged("generator-raised:" + type(out.exc).__name__)
    maze = out.maze
    conn = maze.connection_list
    if graph.wellformed_errors(conn, (r, c)):
        raise core.NotJudged("malformed-array (C01's business)")
    meta = maze.generation_meta
    if meta is None:
        raise core.Violation("C12.meta-missing", f"{gen} returned no generation metadata")
    comps = graph.components(conn)
    one = len(comps) == 1
    fc = bool(meta.get("fully_connected", False))
    V = _cells(meta.get("visited_cells"))
    s = meta.get("start_coord")
    log.add("meta", fc, sorted(V) if V is not None else None, [int(x) for x in s] if s is not None else None, core.digest(conn.tolist()))
    where = f"{gen}{(r, c)} {kw}"
    if V is not None:
        if s is None:
            raise core.Violation("C12.visited-without-start", f"{where}: visited_cells recorded without start_coord")
        comp_s = graph.component_of(conn, s)
        if V != comp_s:
            raise core.Violation(
                "C12.visited-equals-component",
                f"{where}: visited_cells ({len(V)}) != cells reachable from start {tuple(int(x) for x in s)} ({len(comp_s)}); "
                f"missing={sorted(comp_s - V)[:6]} extra={sorted(V - comp_s)[:6]}",
            )
        stats["probe_visited_checked"] = 1
    if fc and not one:
        raise core.Violation("C12.fully-connected-flag", f"{where}: flagged fully_connected but has {len(comps)} components")
    if gen in ("gen_dfs", "gen_prim") and one and not fc:
        raise core.Violation("C12.dfs-flag-iff", f"{where}: graph is connected but fully_connected is False")
    if not fc and V is None:
        raise core.Violation("C12.unflagged-needs-visited", f"{where}: not flagged fully_connected and no visited_cells recorded")
    if gen in ("gen_dfs", "gen_prim"):
        if V is None:
            raise core.Violation("C12.dfs-visited-missing", f"{where}: no visited_cells")
        ed = graph.edges(conn)
        if len(ed) != len(V) - 1 or any(a not in V or b not in V for a, b in ed):
            raise core.Violation("C12.dfs-tree-over-visited", f"{where}: {len(ed)} connections over {len(V)} visited cells is not a tree over exactly the visited cells")
        # (connectedness of V follows from V == component(start) above)
        acc = kw.get("accessible_cells")
        if acc is None:
            lo = hi = total
        elif isinstance(acc, float):
            # a proportion: "never more than requested" means count <= acc * total in exact arithmetic, i.e. <= its floor; the
            # proportion is the decimal the caller wrote (the swarm writes <= 3 decimals, so acc * total is an integer or at
            # least 0.001 away from one and binary rounding cannot carry the float product across an integer upwards); where the
            # float product falls just *below* an exact integer (0.29 * 100 = 28.999...) either count is "exactly that many"
            from fractions import Fraction

            hi = math.floor(Fraction(repr(acc)) * total)
            lo = min(hi, math.floor(acc * total))
        else:
            lo = hi = int(acc)
        if len(V) > max(1, hi):
            raise core.Violation("C12.dfs-accessible-bound", f"{where}: {len(V)} visited cells exceed the requested {hi}")
        no_limit = kw.get("max_tree_depth") is None and kw.get("do_forks", True)
        if no_limit:
            if not (min(max(1, lo), total) <= len(V) <= min(max(1, hi), total)):
                raise core.Violation("C12.dfs-accessible-exact", f"{where}: {len(V)} visited cells, expected {min(max(1, lo), total)}..{min(max(1, hi), total)} (no depth/fork limit)")
            stats["probe_exact_count_checked"] = 1
        if kw.get("do_forks", True) is False:
            deg = graph.degrees(conn)
            if max(deg.values()) > 2:
                raise core.Violation("C12.dfs-no-forks-corridor", f"{where}: a cell has degree {max(deg.values())} although do_forks=False")
            stats["probe_corridor_checked"] = 1
        if len(V) < total:
            stats["probe_constrained_dfs_partial"] = 1
    # ---- consequence clause ----------------------------------------------------------------------
    if out.extra_exc is not None:
        raise core.Violation("C12.connected-component-raised", f"{where}: get_connected_component raised {out.extra_exc!r}")
    if out.extra is not None:
        comp, path, err, restricted = out.extra
        compset = _cells(comp)
        expect = {(i, j) for i in range(r) for j in range(c)} if fc else graph.component_of(conn, s)
        if compset != expect:
            raise core.Violation("C12.component-query", f"{where}: get_connected_component returned {len(compset)} cells, model {len(expect)}")
        if err is not None:
            msg = " ".join(str(a) for a in err.args)[:200]
            if isinstance(err, ValueError) and "could not be found" in msg:
                raise core.Violation("C12.endpoints-unreachable", f"{where}: random endpoints not mutually reachable: {msg[:120]}")
            stats["path_documented_error"] = 1
            stats["path_err_" + type(err).__name__ + ":" + msg[:40]] = 1
        elif path is not None:
            p = np.asarray(path)
            a, b = (int(p[0][0]), int(p[0][1])), (int(p[-1][0]), int(p[-1][1]))
            if b not in graph.component_of(conn, a):
                raise core.Violation("C12.endpoints-unreachable", f"{where}: returned path joins {a} and {b} which are not connected")
            if graph.path_errors(conn, p):
                raise core.Violation("C12.endpoints-unreachable", f"{where}: returned path invalid: {graph.path_errors(conn, p)}")
            stats["probe_random_path_drawn"] = 1
        if restricted is not None:
            pk = spec.get("path_kwargs")
            kind, val = restricted
            if kind == "err":
                msg = " ".join(str(a) for a in val.args)[:200]
                if isinstance(val, ValueError) and "could not be found" in msg:
                    raise core.Violation("C12.endpoints-unreachable", f"{where}: endpoints drawn with {pk} are not mutually reachable: {msg[:120]}")
                stats["restricted_path_err_" + type(val).__name__ + ":" + msg[:40]] = 1
            else:
                p = np.asarray(val)
                a, b = (int(p[0][0]), int(p[0][1])), (int(p[-1][0]), int(p[-1][1]))
                if b not in graph.component_of(conn, a):
                    raise core.Violation("C12.endpoints-unreachable", f"{where}: path drawn with {pk} joins {a} and {b} which are not connected")
                if graph.path_errors(conn, p):
                    raise core.Violation("C12.endpoints-unreachable", f"{where}: path drawn with {pk} is invalid: {graph.path_errors(conn, p)}")
                stats["probe_restricted_path_drawn"] = 1
                if len(comps) > 1 and any(k in pk for k in ("allowed_start", "allowed_end")):
                    stats["probe_restricted_path_on_partial_maze"] = 1


def run_one(spec: dict) -> dict:
    log = core.EventLog()
    _gen.run_history_prefix(spec, log, extra_for=lambda h: (lambda maze: _after(maze, h.get("path_kwargs"))))
    out = _gen.execute(spec, log, extra=lambda maze: _after(maze, spec.get("path_kwargs")))
    extra = {"draws": out.sim.draws if out.sim is not None else None}
    stats = dict(out.sim.stats()) if out.sim is not None else {}
    stats["mode_" + spec["mode"]] = 1
    stats["gen_" + spec["gen"]] = 1
    for k in spec["kwargs"]:
        stats["kw_" + k] = 1
    try:
        judge(spec, out, log, stats)
    except core.NotJudged as e:
        stats["not_judged_" + e.reason] = 1
        return core.ok(log, stats=stats, nontrivial=None)
    except core.Violation as v:
        return core.violation(v.oracle, v.msg, log, key=v.key, stats=stats, spec=spec, **extra)
    r, c = spec["shape"]
    nontrivial = log.digest() if (r * c >= 2 and spec["kwargs"]) else None
    return core.ok(log, stats=stats, nontrivial=nontrivial)


def run(spec: dict, ctx) -> dict:
    if "batch" in spec:
        return {"status": "batch", "results": _gen.run_batch(spec["batch"], run_one)}
    return run_one(spec)


def shrink(spec: dict, result: dict):
    pk = spec.get("path_kwargs")
    if pk:
        for k in list(pk):
            if k != "lists_as":
                yield dict(spec, path_kwargs={kk: vv for kk, vv in pk.items() if kk != k})
        for k in ("allowed_start", "allowed_end"):
            if k in pk and len(pk[k]) > 1:
                for j in range(len(pk[k])):
                    yield dict(spec, path_kwargs=dict(pk, **{k: pk[k][:j] + pk[k][j + 1 :]}))
        if pk.get("lists_as") != "list":
            yield dict(spec, path_kwargs=dict(pk, lists_as="list"))
    yield from _gen.shrink_candidates(spec, result)


def sample_of(spec: dict, result: dict):
    return {"spec": {k: spec[k] for k in ("gen", "shape", "kwargs", "mode", "seed")}, "digest": result.get("digest")}
