"""C19 — Wilson's generator samples spanning trees uniformly (DESIGN §3 C19).

The simulator owns the RNG stream (many seeded streams, real global RNGs and the owned-uniform shim), records the
outputs, and tests the recorded history against the uniform-spanning-tree model. Monte-Carlo decision: the
family-wise false-alarm probability per invocation is fixed at ALPHA and Bonferroni-split; for a given VERIF_SEED
the verdict is deterministic.
"""

from __future__ import annotations

import random

import numpy as np

from mdsim import core
from mdsim.models import ust

PROP = "C19"
LEVEL = "exploration"
TECHNIQUE = "deterministic simulation of seeded RNG streams (S-RNG seam) + statistical test of the output history against a uniform-spanning-tree model (tree enumeration, Kirchhoff marginals)"
ALPHA = 1e-9
JOB_TIMEOUT = 900.0
CHUNK = 1000
RUNS = {"quick": 0, "thorough": 0}  # sizes are fixed by PLAN below
PLAN = {
    "quick": {
        "tree": {(2, 2): 60000, (2, 3): 300000, (3, 2): 300000, (3, 3): 320000},
        "edge": {(4, 4): 20000, (3, 5): 20000, (5, 5): 16000},
        "owned_fraction": 0.25,
        "history_fraction": 0.25,
        "lifetimes": {(2, 2): 8000, (2, 3): 12000, (3, 2): 12000, (3, 3): 24000},
    },
    "thorough": {
        "tree": {(2, 2): 400000, (2, 3): 1500000, (3, 2): 1500000, (3, 3): 2400000, (2, 4): 1200000, (4, 2): 1200000},
        "edge": {(4, 4): 200000, (3, 5): 200000, (5, 5): 160000, (6, 6): 100000, (2, 7): 100000, (4, 6): 100000},
        "owned_fraction": 0.25,
        "history_fraction": 0.25,
        "lifetimes": {(2, 2): 60000, (2, 3): 100000, (3, 2): 100000, (3, 3): 200000, (2, 4): 100000, (4, 2): 100000},
    },
}
COMPONENTS = {
    "real": ["LatticeMazeGenerators.gen_wilson", "numpy legacy global RNG (modes 'real' and 'history', seeded per stream)"],
    "stub": ["numpy.random.randint/choice owned by SimRNG with the uniform policy (mode 'owned')"],
}
RULE = (
    "one evaluation = one chunk of gen_wilson draws from one seeded RNG stream in one process (mode 'history': preceded in that process by seeded calls on other "
    "grids, the caller re-using one shape array rewritten in place or building a new one per call); distinct non-trivial = distinct output trees observed "
    "over all shapes; tests: every tree appears, chi-square vs equal frequencies (tree level), Hoeffding bound on every Kirchhoff edge marginal"
)
LEVEL_TEXT = (
    "Statistical: outputs of many seeded RNG streams are compared with the exact uniform-spanning-tree model (all trees enumerated on small grids, Kirchhoff edge marginals on larger ones). False-alarm probability fixed at 1e-9 per invocation; biases of a few percent in any tree class or edge marginal are far outside that band at these sample sizes. A quarter of the streams start from a process that has already generated other grids (shape array re-used in place by the caller or built anew), and are tested as a group of their own; a further group consists of many short process lifetimes (each seeds the RNGs with its own seed and draws its first two mazes only), which is what a job array or a worker per task produces. Evidence, not proof. Quick tier: 60 000 / 300 000 / 320 000 draws on 2x2 / 2x3+3x2 / 3x3 from the seeded real RNG, a quarter of that each from the owned RNG and from processes with a history, 8 000-24 000 from short process lifetimes.",
    "Trusted: NumPy's legacy global RNG is an adequate uniform source; chi-square tail approximation (expected counts >= 125 per cell); Hoeffding's inequality (exact, conservative).",
)


def _draw_chunk(shape, seed, mode, count):  # noqa: C901
    from maze_dataset.generation.generators import LatticeMazeGenerators

    from mdsim.seams.rng import SimRNG, seed_real

    if mode == "lifetimes":
        # many short process lifetimes (a job array, one worker per task): each lifetime seeds the RNGs with its own seed, as the
        # library's workers do, and draws only its first two mazes; whatever the generator reads besides the seeded RNGs starts
        # from the same point in every lifetime
        counts = {}
        for i in range(count // 2):
            part = core.fork_call(_first_draws, (list(shape), core.H("c19-lifetime", seed, i) % 2**32, 2), timeout=120.0)
            if not isinstance(part, dict) or "__harness__" in part:
                raise RuntimeError("lifetime stage failed: " + str(part)[:300])
            if "raised" in part:
                raise RuntimeError(f"gen_wilson raised {part['raised']}: {part['msg']}")
            for k, v in part["counts"].items():
                counts[k] = counts.get(k, 0) + v
        return counts
    seed_real(seed)
    counts: dict = {}
    gs = np.array(shape)
    if mode == "history":
        # the process has a past: other grids were generated before the counted draws, by a caller that either builds a
        # new shape array per call or keeps ONE array and rewrites it in place for every grid (growing and shrinking it)
        hr = random.Random(core.H("c19-history", seed))
        shared = hr.random() < 0.7
        buf = np.array(hr.choice(PRELUDE_SHAPES))
        for _ in range(hr.randint(1, 3)):
            sh = hr.choice(PRELUDE_SHAPES)
            if shared:
                buf[:] = sh
                arg = buf
            else:
                arg = np.array(sh)
            with _CountedDraws():
                for _ in range(hr.randint(1, 3)):
                    LatticeMazeGenerators.gen_wilson(arg)
        if shared:
            buf[:] = shape
            gs = buf
    if mode == "owned":
        sim = SimRNG(seed, mode="owned", force_policy="uniform", soft_budget=10**12, hard_budget=count * 4000 + WALK_BUDGET)
        sim.draws = _Sink()
        with sim:
            for _ in range(count):
                m = LatticeMazeGenerators.gen_wilson(gs)
                k = m.connection_list.tobytes().hex()
                counts[k] = counts.get(k, 0) + 1
    else:
        with _CountedDraws() as cd:
            for _ in range(count):
                cd.n = 0
                m = LatticeMazeGenerators.gen_wilson(gs)
                k = m.connection_list.tobytes().hex()
                counts[k] = counts.get(k, 0) + 1
    return counts


def _first_draws(shape, seed, k):
    from maze_dataset.generation.generators import LatticeMazeGenerators

    from mdsim.seams.rng import seed_real

    seed_real(seed)
    counts: dict = {}
    try:
        with _CountedDraws() as cd:
            for _ in range(k):
                cd.n = 0
                m = LatticeMazeGenerators.gen_wilson(np.array(shape))
                key = m.connection_list.tobytes().hex()
                counts[key] = counts.get(key, 0) + 1
    except Exception as e:  # noqa: BLE001
        return {"raised": type(e).__name__, "msg": str(e)[:200]}
    return {"counts": counts}


WALK_BUDGET = 200000  # random draws within ONE gen_wilson call on a grid of <= 36 cells; a correct loop-erased walk needs a few
# hundred, and the probability that it needs 200 000 is below exp(-50): exceeding it means the walk cannot terminate


class _CountedDraws:
    """real RNG, un-owned: the global numpy entry points the generator draws from are wrapped by a counter only, so that a
    walk that can never reach the tree is a deterministic, replayable verdict instead of a wall-clock timeout"""

    NAMES = ("choice", "randint", "rand", "random", "permutation", "shuffle")

    def __enter__(self):
        from mdsim.seams.rng import DrawBudgetExceeded

        self.n = 0
        self._saved = {}

        def wrap(fn):
            def counted(*a, **kw):
                self.n += 1
                if self.n > WALK_BUDGET:
                    raise DrawBudgetExceeded(f"more than {WALK_BUDGET} random draws inside one gen_wilson call")
                return fn(*a, **kw)

            return counted

        for name in self.NAMES:
            self._saved[name] = getattr(np.random, name)
            setattr(np.random, name, wrap(self._saved[name]))
        return self

    def __exit__(self, *a):
        for name, fn in self._saved.items():
            setattr(np.random, name, fn)
        return False


PRELUDE_SHAPES = [(1, 1), (1, 3), (2, 2), (2, 3), (3, 2), (3, 3), (2, 5), (4, 4), (5, 2)]


class _Sink(list):
    def append(self, x):  # do not keep millions of draws
        pass


def _edge_counts(shape, counts):
    r, c = shape
    tot = np.zeros((2, r, c), dtype=np.int64)
    for k, v in counts.items():
        tot += np.frombuffer(bytes.fromhex(k), dtype=np.bool_).reshape(2, r, c).astype(np.int64) * v
    return tot


def evaluate(shape, mode, counts: dict, level: str, alpha_each: float):
    """returns (violation dict | None, summary)"""
    r, c = shape
    n = sum(counts.values())
    summary = {"shape": list(shape), "mode": mode, "draws": n, "distinct_outputs": len(counts)}
    # every output must be a spanning tree
    marg = ust.edge_marginals(r, c)
    ntrees = ust.n_spanning_trees(r, c)
    summary["n_trees_model"] = ntrees
    if level == "tree":
        trees = ust.enumerate_spanning_trees(r, c)
        assert len(trees) == ntrees, (len(trees), ntrees)
        tset = {t.hex() for t in trees}
        bad = [k for k in counts if k not in tset]
        if bad:
            return {"oracle": "C19.not-a-spanning-tree", "msg": f"gen_wilson{tuple(shape)} [{mode}] returned {sum(counts[k] for k in bad)} non-tree outputs"}, summary
        missing = [t for t in tset if t not in counts]
        if missing:
            return {"oracle": "C19.tree-never-appears", "msg": f"gen_wilson{tuple(shape)} [{mode}]: {len(missing)} of {ntrees} spanning trees never appeared in {n} draws"}, summary
        exp = n / ntrees
        chi2 = sum((counts.get(t, 0) - exp) ** 2 / exp for t in tset)
        p = ust.chi2_sf(chi2, ntrees - 1)
        summary.update(chi2=round(chi2, 3), dof=ntrees - 1, p_value=p, expected_per_tree=round(exp, 1), min_count=min(counts.values()), max_count=max(counts.values()))
        if p < alpha_each:
            return {"oracle": "C19.tree-frequencies", "msg": f"gen_wilson{tuple(shape)} [{mode}]: chi2={chi2:.1f} dof={ntrees - 1} p={p:.3g} < {alpha_each:.3g} over {n} draws"}, summary
    ec = _edge_counts(shape, counts)
    hw = ust.hoeffding_halfwidth(n, alpha_each)
    worst = 0.0
    for (d, i, j), pe in marg.items():
        dev = abs(ec[d, i, j] / n - pe)
        worst = max(worst, dev)
        if dev > hw:
            return {"oracle": "C19.edge-marginal", "msg": f"gen_wilson{tuple(shape)} [{mode}]: edge {(d, i, j)} frequency {ec[d, i, j] / n:.4f} vs Kirchhoff {pe:.4f} (|dev| {dev:.4f} > {hw:.4f}) over {n} draws"}, summary
    summary.update(edge_halfwidth=round(hw, 5), worst_edge_dev=round(worst, 5))
    return None, summary


def _n_tests(plan):
    groups = 0
    edges = 0
    for level in ("tree", "edge"):
        for shape in plan[level]:
            for _mode in ("real", "owned", "history") + (("lifetimes",) if level == "tree" else ()):
                groups += 3 if level == "tree" else 0
                edges += len(ust.lattice_edges(*shape))
    return groups + edges


def _chunk_outcome(shape, seed, mode, count):
    try:
        return {"counts": _draw_chunk(shape, seed, mode, count)}
    except Exception as e:  # noqa: BLE001 - the generator's exception is the finding; harness trouble surfaces as StageFailure
        return {"raised": type(e).__name__, "msg": str(e)[:200]}


def run(spec: dict, ctx) -> dict:
    if "chunk" in spec:
        ch = spec["chunk"]
        try:
            counts = _draw_chunk(ch["shape"], ch["seed"], ch["mode"], ch["count"])
        except Exception as e:  # noqa: BLE001 - a generator that raises on a valid array shape does not sample at all
            log = core.EventLog()
            log.add("raised", type(e).__name__)
            if type(e).__name__ == "DrawBudgetExceeded":
                return core.violation("C19.walk-does-not-terminate", f"gen_wilson{tuple(ch['shape'])} [{ch['mode']}]: {e} (a loop-erased walk on this grid needs a few hundred)", log, spec=spec)
            return core.violation("C19.generator-raised", f"gen_wilson{tuple(ch['shape'])} [{ch['mode']}] raised {type(e).__name__}: {str(e)[:200]}", log, spec=spec)
        return {"status": "ok", "counts": counts, "digest": core.digest(sorted(counts.items())), "stats": {"draws": ch["count"], "mode_" + ch["mode"]: 1}}
    full = spec["full"]
    counts: dict = {}
    for seed, cnt in full["chunks"]:
        # every chunk is one process lifetime, in the replay as in the search: state the library keeps per process (a module-level
        # generator, a cache) starts from the same point in each of them
        part = core.stage(_chunk_outcome, full["shape"], seed, full["mode"], cnt, timeout=600.0)
        if "raised" in part:
            log = core.EventLog()
            log.add("raised", part["raised"])
            kind = "C19.walk-does-not-terminate" if part["raised"] == "DrawBudgetExceeded" else "C19.generator-raised"
            return core.violation(kind, f"gen_wilson{tuple(full['shape'])} [{full['mode']}] raised {part['raised']} in the chunk with seed {seed}: {part['msg']}", log, spec=spec)
        part = part["counts"]
        for k, v in part.items():
            counts[k] = counts.get(k, 0) + v
    v, summary = evaluate(tuple(full["shape"]), full["mode"], counts, full["level"], full["alpha_each"])
    log = core.EventLog()
    log.add("counts", sorted(counts.items()))
    if v is not None:
        return core.violation(v["oracle"], v["msg"], log, spec=spec, summary=summary)
    return core.ok(log, summary=summary)


def execute_all(pool, rng: random.Random, tier: str, n: int):
    plan = PLAN[tier]
    alpha_each = ALPHA / _n_tests(plan)
    jobs = []
    meta = []
    for level in ("tree", "edge"):
        for shape, total in plan[level].items():
            modes = [("real", total), ("owned", int(total * plan["owned_fraction"])), ("history", int(total * plan["history_fraction"]))]
            if level == "tree":
                modes.append(("lifetimes", plan["lifetimes"][shape]))
            for mode, tot in modes:
                left = tot
                while left > 0:
                    cnt = min(CHUNK, left)
                    left -= cnt
                    seed = rng.getrandbits(48)
                    spec = {"chunk": {"shape": list(shape), "seed": seed, "mode": mode, "count": cnt}}
                    jobs.append({"prop": PROP, "tier": tier, "timeout": JOB_TIMEOUT, "spec": spec})
                    meta.append((level, shape, mode, seed, cnt))
    results = pool.run(jobs)
    pairs = [(j["spec"], r) for j, r in zip(jobs, results)]
    agg: dict = {}
    chunks: dict = {}
    for (level, shape, mode, seed, cnt), r in zip(meta, results):
        if not isinstance(r, dict) or r.get("status") != "ok":
            continue
        a = agg.setdefault((level, shape, mode), {})
        for k, v in r["counts"].items():
            a[k] = a.get(k, 0) + v
        chunks.setdefault((level, shape, mode), []).append([seed, cnt])
        r.pop("counts")
    summaries = []
    distinct = set()
    for (level, shape, mode), counts in agg.items():
        v, summary = evaluate(shape, mode, counts, level, alpha_each)
        summaries.append(summary)
        for k in counts:
            distinct.add((shape, k))
        if v is not None:
            full = {"full": {"shape": list(shape), "mode": mode, "level": level, "chunks": chunks[(level, shape, mode)], "alpha_each": alpha_each}}
            log = core.EventLog()
            log.add("counts", sorted(counts.items()))
            pairs.append((full, core.violation(v["oracle"], v["msg"], log, spec=full)))
    cov = {
        "tests": summaries,
        "alpha_family": ALPHA,
        "alpha_each": alpha_each,
        "n_tests": _n_tests(plan),
        "distinct_nontrivial": len(distinct),
        "total_draws": sum(sum(c.values()) for c in agg.values()),
        "fault_kinds": "none: C19 has no fault dimension; the explored dimension is the RNG stream (seeded streams, two RNG implementations)",
    }
    return pairs, cov


def shrink(spec: dict, result: dict):
    "fewer draws while the same test still fails"
    if "full" not in spec:
        return
    ch = spec["full"]["chunks"]
    if len(ch) > 1:
        h = len(ch) // 2
        yield {"full": dict(spec["full"], chunks=ch[:h])}
        yield {"full": dict(spec["full"], chunks=ch[h:])}


def sample_of(spec, result):
    if "chunk" in spec:
        return {"chunk": spec["chunk"], "counts_digest": result.get("digest")}
    return {"full": {k: v for k, v in spec["full"].items() if k != "chunks"}, "n_chunks": len(spec["full"]["chunks"])}
