"""C15 — tokenizer configuration space enumerated exactly, identified uniquely (narrow claim, DESIGN §3 C15).

What the simulation decides: names / hashes / enumeration agree *in every process* (S-PROC: K interpreters with
simulator-chosen PYTHONHASHSEED, different import/use pre-histories, fresh interpreters) and survive save/load
through an archive (S-DISK).  The enumeration and uniqueness clauses are evaluated inside every simulated process
because the cross-process comparison needs those very lists.
"""

from __future__ import annotations

import dataclasses
import hashlib
import itertools
import json
import os
import random
import subprocess

from mdsim import core

PROP = "C15"
LEVEL = "exploration"
TECHNIQUE = "deterministic simulation across interpreter processes with simulator-chosen PYTHONHASHSEED and differing pre-histories (S-PROC) + archive save/load through the storage seam; cross-process log agreement + count model"
RUNS = {"quick": 2, "thorough": 2}  # pre-histories per hash-seed slot
HASHSEED_SLOTS = {"quick": 3, "thorough": 6}
OPTIMIZE_SLOTS = {"quick": [2], "thorough": [2, 5]}  # hash-seed slots whose interpreter runs under `python -O` (asserts stripped)
N_SERVERS = {"quick": 9, "thorough": 12}
SAMPLE = {"quick": 1500, "thorough": 6000}
JOB_TIMEOUT = 3000.0
EXPECTED_TOTAL = 9 * 216 * 1008 * 3  # as the property states: 5,878,656
COMPONENTS = {
    "real": ["utils.all_instances", "all_tokenizers.MAZE_TOKENIZER_MODULAR_DEFAULT_VALIDATION_FUNCS", "MazeTokenizerModular name / __hash__ / hash_int / hash_b64 / serialize / load / from_legacy / is_legacy_equivalent", "all _TokenizerElement classes", "ZANJ save/read of tokenizers"],
    "stub": ["archive file object + clock for the ZANJ round trips (FaultyFile fault-free, SimClock)"],
}
RULE = (
    "one run = one interpreter process (hash-seed slot x pre-history): per element class exhaustive enumeration (pruned vs brute-force-then-filter), "
    "streamed count of the full tokenizer enumeration, a seeded sample of composed tokenizers (names, hashes, serialize/load, legacy equivalence), "
    "ZANJ save/read of a sub-sample, and in the thorough tier order-independent digests of all 5,878,656 names and hashes; distinct = distinct "
    "(slot, pre-history) processes; logs must agree entry by entry across all of them"
)
LEVEL_TEXT = (
    "Narrow claim: what simulation decides is process-independence (names, hashes, enumeration content identical in interpreters with different PYTHONHASHSEED and pre-histories, and after save/load through the storage seam). The combinatorial clauses (count = product, uniqueness of names and hashes, pruned enumeration = filtered brute force per element class) are evaluated inside each process as input to that comparison; full-space name/hash digests only in the thorough tier. Histories inside each process: tokenizers are used and re-identified, saved forms are loaded twice, enumerations are interrupted at a seeded validity check and repeated, the module-level memoised enumeration is read before and after the module's sampling helpers; every single-element neighbour of every legacy image is checked; twin interpreters run under python -O and under -W error.",
    "Trusted: blake2b; the quick tier samples full tokenizers (per-element classes are exhaustive in both tiers). Element hashes (not tokenizer hashes) are per-process by construction of the library (DESIGN 6.4) and are only compared within a process.",
)


def _fp(s: str) -> int:
    return int.from_bytes(hashlib.blake2b(s.encode(), digest_size=8).digest(), "big")


def _elements_valid(x) -> bool:
    "brute-force validity: the element and every nested element is_valid(), step tokenizer tuples are duplicate-free and not (Distance(),)"
    from maze_dataset.tokenization import StepTokenizers, _TokenizerElement

    if isinstance(x, _TokenizerElement):
        if not x.is_valid():
            return False
        for f in dataclasses.fields(x):
            if not _elements_valid(getattr(x, f.name)):
                return False
        return True
    if isinstance(x, tuple):
        if all(isinstance(e, _TokenizerElement) for e in x) and x:
            if len(set(x)) != len(x) or x == (StepTokenizers.Distance(),):
                return False
        return all(_elements_valid(e) for e in x)
    return True


def st_process(spec):
    import warnings

    if not spec.get("strict_warnings"):
        warnings.filterwarnings("ignore")
    # else: the process was started with warnings turned into errors (`python -W error`): part of "in every process"
    import numpy as np
    from maze_dataset.tokenization import (
        AdjListTokenizers,
        CoordTokenizers,
        EdgeGroupings,
        EdgePermuters,
        EdgeSubsets,
        MazeTokenizerModular,
        PathTokenizers,
        PromptSequencers,
        StepSizes,
        StepTokenizers,
        TargetTokenizers,
        TokenizationMode,
    )
    from maze_dataset.tokenization.all_tokenizers import MAZE_TOKENIZER_MODULAR_DEFAULT_VALIDATION_FUNCS as V
    from maze_dataset.utils import all_instances

    events: list = []
    viols: list = []
    stats: dict = {}

    def bad(oracle, msg):
        viols.append([oracle, msg, None])
        events.append(["violation", oracle])

    # ---- pre-history: things a user process may have done before it looks at tokenizers -----------------
    pre = spec.get("pre", "none")
    if pre == "dataset-work":
        from maze_dataset import MazeDataset, MazeDatasetConfig

        ds = MazeDataset.from_config(MazeDatasetConfig(name="pre", grid_n=3, n_mazes=3), load_local=False, save_local=False)
        ds[0].as_tokens(MazeTokenizerModular())
    elif pre == "construct-some":
        for x in itertools.islice(all_instances(PathTokenizers._PathTokenizer, V), 50):
            hash(x), x.name
        {MazeTokenizerModular(), MazeTokenizerModular(prompt_sequencer=PromptSequencers.AOTP(coord_tokenizer=CoordTokenizers.CTT()))}
    elif pre == "legacy-first":
        [MazeTokenizerModular.from_legacy(m).is_legacy_equivalent() for m in TokenizationMode]

    # ---- per element class: exhaustive ---------------------------------------------------------------------
    bases = {
        "coord": CoordTokenizers._CoordTokenizer,
        "edge_grouping": EdgeGroupings._EdgeGrouping,
        "edge_permuter": EdgePermuters._EdgePermuter,
        "edge_subset": EdgeSubsets._EdgeSubset,
        "adj_list": AdjListTokenizers._AdjListTokenizer,
        "target": TargetTokenizers._TargetTokenizer,
        "step_size": StepSizes._StepSize,
        "step_tokenizer": StepTokenizers._StepTokenizer,
        "path": PathTokenizers._PathTokenizer,
    }
    elems: dict = {}
    for key, cls in bases.items():
        pruned = list(all_instances(cls, V))
        brute = [x for x in all_instances(cls, None) if _elements_valid(x)]
        pn = sorted(x.name for x in pruned)
        bn = sorted(x.name for x in brute)
        if len(set(pn)) != len(pn):
            bad("C15.element-names-distinct", f"{key}: {len(pn) - len(set(pn))} duplicate names among enumerated {cls.__name__} instances")
        if pn != bn:
            missing = sorted(set(bn) - set(pn))[:3]
            extra = sorted(set(pn) - set(bn))[:3]
            bad("C15.enumeration-equals-valid-set", f"{key}: enumeration yields {len(pn)} instances, brute-force filtering by the validity rules yields {len(bn)}; missing={missing} extra={extra}")
        if len({hash(x) for x in pruned}) != len(pruned):
            bad("C15.element-hashes-distinct", f"{key}: hash collision among {len(pruned)} element instances")
        elems[key] = sorted(pruned, key=lambda x: x.name)
        events.append(["elements", key, len(pn), core.digest(pn)])
    # ---- every abstract class of the element hierarchy as an entry point, the root included: the enumeration from a class is
    #      the disjoint union of the enumerations from the concrete classes below it (each value exactly once), however many
    #      abstract levels lie in between. Families too large to list here are read lazily: a prefix must be duplicate-free and
    #      consist of valid instances of the concrete classes below.
    from maze_dataset.tokenization import _TokenizerElement as _Root
    from maze_dataset.utils import is_abstract

    def _leaves(c, seen):
        out = []
        for sub in c.__subclasses__():
            if sub in seen:
                continue
            seen.add(sub)
            if not is_abstract(sub):
                out.append(sub)
            out.extend(_leaves(sub, seen))
        return out

    def _abstract_below(c, seen):
        out = []
        for sub in c.__subclasses__():
            if sub in seen:
                continue
            seen.add(sub)
            if is_abstract(sub):
                out.append(sub)
            out.extend(_abstract_below(sub, seen))
        return out

    LIMIT = 30000
    for A in [_Root] + _abstract_below(_Root, set()):
        lv = _leaves(A, set())
        prefix = list(itertools.islice(all_instances(A, V), LIMIT + 1))
        complete = len(prefix) <= LIMIT
        names = [type(x).__name__ + ":" + x.name for x in prefix]
        events.append(["entry-point", A.__name__, len(lv), complete, len(prefix) if complete else None, core.digest(sorted(names)) if complete else None])
        if len(set(names)) != len(names):
            import collections

            dup = sorted(n for n, k in collections.Counter(names).items() if k > 1)[:2]
            bad("C15.enumeration-exactly-once", f"enumerating from {A.__name__}: {len(names) - len(set(names))} values appear more than once among the first {len(names)}, e.g. {dup}")
            continue
        if any(type(x) not in lv for x in prefix):
            bad("C15.enumeration-equals-valid-set", f"enumerating from {A.__name__} yields an instance of a class that is not a concrete class below it")
            continue
        if complete:
            want = []
            for leaf in lv:
                want.extend(type(x).__name__ + ":" + x.name for x in all_instances(leaf, V))
            if sorted(want) != sorted(names):
                bad("C15.enumeration-equals-valid-set", f"enumerating from {A.__name__} yields {len(names)} values, its {len(lv)} concrete classes together yield {len(want)}")
            stats["probe_abstract_entry_points_complete"] = stats.get("probe_abstract_entry_points_complete", 0) + 1
        else:
            stats["probe_abstract_entry_points_prefix"] = stats.get("probe_abstract_entry_points_prefix", 0) + 1
    # ---- custom rule sets: a rule keyed on a class's own abstract base takes precedence over the general element rule for
    #      instances of that class (the documented "first match along the MRO"), nested elements keep theirs; the enumeration
    #      must then be exactly: every instance whose nested elements are valid, whatever its own is_valid() says
    import frozendict as _fd

    for key, cls in bases.items():
        V2 = _fd.frozendict({**dict(V), cls: (lambda x: True)})
        got = sorted(x.name for x in all_instances(cls, V2))
        want = sorted(x.name for x in all_instances(cls, None) if all(_elements_valid(getattr(x, f.name)) for f in dataclasses.fields(x)))
        events.append(["reopened-family", key, len(got), core.digest(got)])
        if got != want:
            missing = sorted(set(want) - set(got))[:3]
            extra = sorted(set(got) - set(want))[:3]
            bad("C15.enumeration-equals-valid-set", f"{key}: with a rule on {cls.__name__} that admits everything, the enumeration yields {len(got)} instances, the rules admit {len(want)}; missing={missing} extra={extra}")
    # ---- fault injection at the validity seam: an enumeration that is interrupted part-way (an exception raised inside the
    #      k-th validity check - what Ctrl-C or a MemoryError during the long enumeration amounts to) and then simply repeated
    #      with the very same arguments must give the complete set, not whatever the interrupted attempt left behind
    import frozendict
    from maze_dataset.tokenization import _TokenizerElement as _TE

    class _Injected(Exception):
        pass

    frng = random.Random(spec["seed"] ^ 0xFA17)
    n_inj = 0
    for key, cls in bases.items():
        want = [x.name for x in elems[key]]
        for _rep in range(2):
            cnt = {"n": 0}

            def counting(x, _c=cnt):
                _c["n"] += 1
                return x.is_valid()

            VC = frozendict.frozendict({**dict(V), _TE: counting})
            list(all_instances(cls, VC))
            total_calls = cnt["n"]
            if total_calls < 2:
                break
            st = {"n": 0, "fail_at": frng.randint(1, total_calls)}

            def faulty(x, _s=st):
                _s["n"] += 1
                if _s["n"] == _s["fail_at"]:
                    raise _Injected()
                return x.is_valid()

            VF = frozendict.frozendict({**dict(V), _TE: faulty})
            try:
                list(all_instances(cls, VF))
                fired = False
            except _Injected:
                fired = True
            again = sorted(x.name for x in all_instances(cls, VF))  # same arguments, the fault does not recur
            n_inj += int(fired)
            events.append(["interrupted-enumeration", key, st["fail_at"], total_calls, fired, len(again)])
            if again != sorted(want):
                bad("C15.enumeration-after-interruption", f"{key}: after an enumeration interrupted in validity check {st['fail_at']} of {total_calls}, repeating it yields {len(again)} instances instead of {len(want)}")
                break
    stats["fault_enumeration_interrupted"] = n_inj
    n_coord, n_adj, n_tgt, n_path = len(elems["coord"]), len(elems["adj_list"]), len(elems["target"]), len(elems["path"])
    predicted = n_coord * n_adj * n_path * (n_tgt + 1)  # AOTP has a target tokenizer, AOP has none
    events.append(["predicted", n_coord, n_adj, n_path, n_tgt, predicted])
    if predicted != EXPECTED_TOTAL:
        bad("C15.count", f"parameter space predicts {predicted} tokenizers, the property states {EXPECTED_TOTAL}")

    # ---- the full enumeration -------------------------------------------------------------------------------
    full = spec.get("full_digests", False)
    n = 0
    n_legacy = 0
    n_legacy_wrong = 0
    if full:
        name_fp = np.empty(EXPECTED_TOTAL + 1024, dtype=np.uint64)
        hash_fp = np.empty(EXPECTED_TOTAL + 1024, dtype=np.uint64)
        b64_fp = np.empty(EXPECTED_TOTAL + 1024, dtype=np.uint64)
        legacy_imgs = {MazeTokenizerModular.from_legacy(m).name for m in TokenizationMode}
        for x in all_instances(MazeTokenizerModular, V):
            if n < name_fp.shape[0]:
                nm = x.name
                name_fp[n] = _fp(nm)
                hash_fp[n] = hash(x) % (1 << 64)
                b64_fp[n] = _fp(x.hash_b64())
                if nm in legacy_imgs:
                    n_legacy += 1
                if x.is_legacy_equivalent() != (nm in legacy_imgs):
                    n_legacy_wrong += 1
            n += 1
        m = min(n, name_fp.shape[0])
        un, uh = np.unique(name_fp[:m]).shape[0], np.unique(hash_fp[:m]).shape[0]
        if un != m:
            bad("C15.names-distinct", f"{m - un} name collisions among {m} enumerated tokenizers")
        if uh != m:
            bad("C15.hashes-distinct", f"{m - uh} hash collisions among {m} enumerated tokenizers")
        ub = np.unique(b64_fp[:m]).shape[0]
        if ub != m:
            bad("C15.hashes-distinct", f"{m - ub} hash_b64() collisions among {m} enumerated tokenizers")
        events.append(["full", int(n), int(np.bitwise_xor.reduce(name_fp[:m])), int(name_fp[:m].sum(dtype=np.uint64)), int(np.bitwise_xor.reduce(hash_fp[:m])), int(hash_fp[:m].sum(dtype=np.uint64)), n_legacy])
        if n_legacy != len(legacy_imgs):
            bad("C15.legacy-images-enumerated-once", f"{n_legacy} enumerated tokenizers carry the name of a legacy image, expected {len(legacy_imgs)}")
        if n_legacy_wrong:
            bad("C15.legacy-equivalent", f"{n_legacy_wrong} of the {n} enumerated tokenizers report is_legacy_equivalent() differently from 'is the image of a legacy mode'")
        stats["probe_full_name_hash_digests"] = 1
        stats["full_space_legacy_equivalence_checked"] = int(n)
    else:
        # every 20th enumerated tokenizer (~294 000): names and all three stable identifiers must be pairwise distinct
        ids: dict = {"name": set(), "hash": set(), "hash_b64": set()}
        n_strided = 0
        for x in all_instances(MazeTokenizerModular, V):
            if n % 20 == 7:
                n_strided += 1
                ids["name"].add(_fp(x.name))
                ids["hash"].add(hash(x) % (1 << 64))
                ids["hash_b64"].add(x.hash_b64())
            n += 1
        for k, v in ids.items():
            if len(v) != n_strided:
                bad("C15.hashes-distinct" if k != "name" else "C15.names-distinct", f"{n_strided - len(v)} collisions of {k} among every 20th enumerated tokenizer ({n_strided})")
        events.append(["count", n, n_strided, [len(ids[k]) for k in ("name", "hash", "hash_b64")]])
        stats["strided_identifier_distinctness_checked"] = n_strided
    if n != predicted:
        bad("C15.count", f"enumeration yields {n} tokenizers, the parameter space predicts {predicted}")

    # ---- seeded sample of composed tokenizers ----------------------------------------------------------------
    rng = random.Random(spec["seed"])
    legacy = [MazeTokenizerModular.from_legacy(m) for m in TokenizationMode]
    legacy_names = {t.name for t in legacy}
    for mode, t in zip(TokenizationMode, legacy):
        events.append(["legacy", mode.name, core.digest(t.name), str(hash(t))])
        if not t.is_legacy_equivalent():
            bad("C15.legacy-equivalent", f"from_legacy({mode.name}) does not report itself legacy-equivalent")
    sample = list(legacy)
    for _ in range(spec["sample"]):
        c = rng.choice(elems["coord"])
        a = rng.choice(elems["adj_list"])
        p = rng.choice(elems["path"])
        if rng.random() < 2 / 3:
            ps = PromptSequencers.AOTP(coord_tokenizer=c, adj_list_tokenizer=a, target_tokenizer=rng.choice(elems["target"]), path_tokenizer=p)
        else:
            ps = PromptSequencers.AOP(coord_tokenizer=c, adj_list_tokenizer=a, path_tokenizer=p)
        sample.append(MazeTokenizerModular(prompt_sequencer=ps))
    seen_names: dict = {}
    seen_hashes: dict = {}
    for t in sample:
        nm = t.name
        h = hash(t)
        events.append(["tok", core.digest(nm), str(h), str(t.hash_int()), t.hash_b64()])
        if not t.is_valid():
            bad("C15.sample-valid", f"composed tokenizer is not valid: {nm[:120]}")
        if nm in seen_names and not (seen_names[nm] == t):
            bad("C15.names-distinct", f"two different tokenizers share the name {nm[:120]}")
        if h in seen_hashes and seen_hashes[h] != nm:
            bad("C15.hashes-distinct", f"two tokenizers with different names share the hash {h}")
        seen_names[nm] = t
        seen_hashes[h] = nm
        saved = t.serialize()
        saved_text = json.dumps(saved)
        t2 = MazeTokenizerModular.load(json.loads(saved_text))
        if not (t2 == t) or t2.name != nm or hash(t2) != h:
            bad("C15.save-load", f"serialize/load does not return an equal tokenizer with the same name: {nm[:120]}")
        if len(seen_names) % 8 == 0:
            # a saved form is loaded more than once (sanity-check it, then keep it): loading must not consume or alter it
            try:
                t3 = MazeTokenizerModular.load(saved)
                t4 = MazeTokenizerModular.load(saved)
                if not (t3 == t) or not (t4 == t) or t4.name != nm:
                    bad("C15.save-load", f"loading the same saved form twice does not give equal tokenizers: {nm[:120]}")
            except Exception as e:  # noqa: BLE001
                bad("C15.save-load", f"loading the same saved form a second time raised {type(e).__name__}: {str(e)[:120]} ({nm[:80]})")
            if json.dumps(saved) != saved_text:
                bad("C15.save-load", f"loading altered the saved form it was given: {nm[:120]}")
        if t.is_legacy_equivalent() != (nm in legacy_names):
            bad("C15.legacy-equivalent", f"is_legacy_equivalent()={t.is_legacy_equivalent()} for {nm[:120]}")
    stats["sampled_tokenizers"] = len(sample)
    # ---- history: a tokenizer's identity must not depend on whether it (or an element instance it shares with others) has
    #      been *used*; "equal tokenizers have equal names and hashes", "saving then loading returns ... the same name"
    from maze_dataset import SolvedMaze

    conn = np.zeros((2, 3, 3), dtype=np.bool_)
    conn[1, 0, 0] = conn[1, 0, 1] = conn[0, 0, 2] = conn[0, 1, 2] = conn[1, 1, 0] = conn[1, 1, 1] = conn[0, 1, 0] = conn[1, 2, 0] = True
    maze = SolvedMaze(connection_list=conn, solution=np.array([[0, 0], [0, 1], [0, 2], [1, 2], [2, 2]]))
    ident_before = [(t.name, hash(t)) for t in sample]
    used = sample[:: max(1, len(sample) // 150)]
    n_used = 0
    for t in used:
        try:
            toks = maze.as_tokens(t)
            t.coords_to_strings([(0, 0), (1, 2)])
            n_used += 1
        except Exception:  # noqa: BLE001 - whether every tokenizer can render this maze is not C15's business
            continue
    ident_after = [(t.name, hash(t)) for t in sample]
    changed = [i for i, (a, b) in enumerate(zip(ident_before, ident_after)) if a != b]
    if changed:
        i = changed[0]
        bad("C15.identity-stable-under-use", f"{len(changed)} of {len(sample)} sampled tokenizers changed name or hash after {n_used} of them tokenized a maze: {ident_before[i][0][:100]} -> {ident_after[i][0][:140]}")
    for t, (nm0, h0) in list(zip(sample, ident_before))[:: max(1, len(sample) // 150)]:
        t2 = MazeTokenizerModular.load(json.loads(json.dumps(t.serialize())))
        if t2.name != nm0 or hash(t2) != h0 or not (t2 == t):
            bad("C15.save-load", f"after use, serialize/load no longer returns an equal tokenizer with the original name: {nm0[:120]}")
            break
    events.append(["used", n_used, len(changed)])
    stats["tokenizers_used_then_reidentified"] = n_used
    # ---- every single-element neighbour of every legacy image (exhaustive at distance 1): "... and no other tokenizer does" ----
    n_nb = 0
    nb_true = 0
    for mode, lt in zip(TokenizationMode, legacy):
        ps = lt.prompt_sequencer
        base = dict(coord_tokenizer=ps.coord_tokenizer, adj_list_tokenizer=ps.adj_list_tokenizer, target_tokenizer=ps.target_tokenizer, path_tokenizer=ps.path_tokenizer)
        cands = []
        for slot, key in (("coord_tokenizer", "coord"), ("adj_list_tokenizer", "adj_list"), ("target_tokenizer", "target"), ("path_tokenizer", "path")):
            for e in elems[key]:
                kw = dict(base)
                kw[slot] = e
                cands.append(MazeTokenizerModular(prompt_sequencer=PromptSequencers.AOTP(**kw)))
        for c in elems["coord"]:
            cands.append(MazeTokenizerModular(prompt_sequencer=PromptSequencers.AOP(coord_tokenizer=c, adj_list_tokenizer=base["adj_list_tokenizer"], path_tokenizer=base["path_tokenizer"])))
        for _ in range(200):  # distance-2 neighbours, seeded
            kw = dict(base)
            for slot, key in rng.sample([("coord_tokenizer", "coord"), ("adj_list_tokenizer", "adj_list"), ("target_tokenizer", "target"), ("path_tokenizer", "path")], 2):
                kw[slot] = rng.choice(elems[key])
            cands.append(MazeTokenizerModular(prompt_sequencer=PromptSequencers.AOTP(**kw)))
        for t in cands:
            n_nb += 1
            le = t.is_legacy_equivalent()
            nb_true += bool(le)
            if le != (t.name in legacy_names):
                bad("C15.legacy-equivalent", f"is_legacy_equivalent()={le} for a neighbour of from_legacy({mode.name}): {t.name[:160]}")
                break
    events.append(["legacy-neighbours", n_nb, nb_true])
    stats["legacy_neighbours_checked"] = n_nb
    # ---- archive round trip through the storage seam ---------------------------------------------------------------
    from zanj import ZANJ

    from mdsim.seams import disk as sdisk

    sub = [sample[i] for i in range(0, len(sample), max(1, len(sample) // 16))][:16]
    dk = sdisk.SimDisk(None)
    with sdisk.Installed(dk, sdisk.SimClock(1.7e9, [1.0])):
        p = os.path.join(spec["scratch"], "toks.zanj")
        ZANJ().save({"toks": sub}, p)
        back = ZANJ().read(p)["toks"]
        for t, b in zip(sub, back):
            if not isinstance(b, MazeTokenizerModular) or not (b == t) or b.name != t.name or hash(b) != hash(t):
                bad("C15.save-load", f"ZANJ save/read does not return an equal tokenizer with the same name: {t.name[:120]}")
        one = os.path.join(spec["scratch"], "one.zanj")
        ZANJ().save(sub[0], one)
        if not (ZANJ().read(one) == sub[0]):
            bad("C15.save-load", "ZANJ save/read of a single tokenizer is not equal")
        dk.finalize()
    events.append(["zanj", len(sub)])
    stats["zanj_roundtrips"] = len(sub) + 1
    return {"violations": viols, "events": events, "stats": stats}


def st_module_history(spec):
    """History on the module-level (cached) enumeration: `get_all_tokenizers()` is what users call, it is memoised, and the
    module's own sampling helpers work on that memoised list.  Whatever sequence of helper calls a process has made, the
    enumeration it then sees must still be the whole valid space: same size (= the product predicted from the parameter
    space), same members at the probed positions, both legacy-default tokenizers present."""
    import warnings

    warnings.filterwarnings("ignore")
    from maze_dataset.tokenization import AdjListTokenizers, CoordTokenizers, MazeTokenizerModular, PathTokenizers, TargetTokenizers
    from maze_dataset.tokenization import all_tokenizers as at
    from maze_dataset.utils import all_instances

    V = at.MAZE_TOKENIZER_MODULAR_DEFAULT_VALIDATION_FUNCS
    events: list = []
    viols: list = []
    n_c = sum(1 for _ in all_instances(CoordTokenizers._CoordTokenizer, V))
    n_a = sum(1 for _ in all_instances(AdjListTokenizers._AdjListTokenizer, V))
    n_t = sum(1 for _ in all_instances(TargetTokenizers._TargetTokenizer, V))
    n_p = sum(1 for _ in all_instances(PathTokenizers._PathTokenizer, V))
    predicted = n_c * n_a * n_p * (n_t + 1)
    rng = random.Random(spec["seed"])

    def snapshot(label):
        lst = at.get_all_tokenizers()
        n = len(lst)
        pos = [(i * 7919) % n for i in range(400)] + [0, n - 1]
        names = [lst[i].name for i in pos]
        dflt = sum(1 for i in (0, n - 1) if lst[i] is not None)  # touch ends
        has_default = MazeTokenizerModular() in at.EVERY_TEST_TOKENIZERS
        events.append(["snapshot", label, n, core.digest(names)])
        if n != predicted:
            viols.append(["C15.count", f"after {label}: get_all_tokenizers() yields {n} tokenizers, the parameter space predicts {predicted}", None])
        return n, names

    n0, names0 = snapshot("first call")
    ops = ["sample_tokenizers_for_test", "sample_all_tokenizers", "sample_tokenizers_for_test_none", "all_tokenizers_set"]
    rng.shuffle(ops)
    for op in ops[: spec.get("n_ops", 3)]:
        try:
            if op == "sample_tokenizers_for_test":
                out = at.sample_tokenizers_for_test(rng.randint(1, 12))
            elif op == "sample_all_tokenizers":
                out = at.sample_all_tokenizers(rng.randint(1, 12))
            elif op == "sample_tokenizers_for_test_none":
                out = at.sample_tokenizers_for_test(None)
            else:
                out = at.all_tokenizers_set()
            events.append(["op", op, len(out)])
        except Exception as e:  # noqa: BLE001
            viols.append(["C15.module-helper-raised", f"{op} raised {type(e).__name__}: {str(e)[:200]}", None])
            break
        n1, names1 = snapshot("after " + op)
        if n1 == n0 and names1 != names0:
            viols.append(["C15.enumeration-stable", f"after {op} the memoised enumeration has the same size but other members at the probed positions", None])
    return {"violations": viols, "events": events, "stats": {"module_history_ops": len(ops[: spec.get('n_ops', 3)]), "module_enumeration_size": n0}}


FRESH_CODE = r"""
import sys, json, warnings
if not {strict!r}:
    warnings.filterwarnings('ignore')
sys.path.insert(0, {repo!r}); sys.path.insert(0, {verif!r})
from mdsim.props import c15
try:
    res = c15.st_process(json.loads({spec!r}))
except Exception as e:  # e.g. a warning turned into an error inside a library call
    res = dict(violations=[["C15.operation-raised", type(e).__name__ + ": " + str(e)[:200], None]], events=[["raised", type(e).__name__, str(e)[:120]]], stats=dict())
print('@@' + json.dumps(res))
"""


def fresh_process(spec, hashseed, repo, optimize=False):
    env = dict(os.environ)
    env["PYTHONHASHSEED"] = str(hashseed)
    env.pop("PYTHONOPTIMIZE", None)
    if optimize:
        env["PYTHONOPTIMIZE"] = "1"  # the twin interpreter runs under `python -O`
    strict = bool(spec.get("strict_warnings"))
    code = FRESH_CODE.format(repo=repo, verif=core.VERIF_DIR, spec=json.dumps(spec), strict=strict)
    env.pop("PYTHONWARNINGS", None)
    r = subprocess.run([core.PYTHON] + (["-W", "error"] if strict else []) + ["-c", code], capture_output=True, text=True, env=env, cwd="/tmp", timeout=2500)
    for line in r.stdout.splitlines():
        if line.startswith("@@"):
            return json.loads(line[2:])
    raise core.StageFailure("fresh interpreter produced no result: " + r.stderr[-1500:])


def run(spec: dict, ctx) -> dict:
    log = core.EventLog()
    sp = dict(spec, scratch=ctx.scratch)
    if spec.get("mode") == "module-history":
        res = core.stage(st_module_history, sp, timeout=2800.0)
        log.add("events", res["events"])
        stats = dict(res["stats"])
        ed = core.digest(res["events"])
        if res["violations"]:
            o, m, k = res["violations"][0]
            return core.violation(o, m, log, key=k, stats=stats, spec=spec, events_digest=ed, group=spec.get("group"))
        return core.ok(log, stats=stats, nontrivial=f"module:{spec.get('slot')}", events_digest=ed, group=spec.get("group"))
    res = core.stage(st_process, sp, timeout=2800.0)
    log.add("events", res["events"])
    stats = dict(res["stats"])
    stats["pre_" + spec.get("pre", "none")] = 1
    if "fresh" in spec:
        os.makedirs(os.path.join(ctx.scratch, "fresh"), exist_ok=True)
        r2 = fresh_process(dict(sp, scratch=os.path.join(ctx.scratch, "fresh"), pre=spec["fresh"].get("pre", "none"), strict_warnings=bool(spec["fresh"].get("strict_warnings"))), spec["fresh"]["hashseed"], ctx.repo, optimize=bool(spec["fresh"].get("optimize")))
        stats["probe_fresh_interpreter"] = 1
        if r2["events"] != res["events"]:
            badent = next((a for a, b in zip(res["events"], r2["events"]) if a != b), None)
            return core.violation(
                "C15.cross-process",
                f"names / hashes / enumeration differ between this process (PYTHONHASHSEED={ctx.hashseed}, pre-history {spec.get('pre')}) and a fresh interpreter (PYTHONHASHSEED={spec['fresh']['hashseed']}); first differing entry here: {str(badent)[:300]}",
                log,
                stats=stats,
                spec=spec,
            )
    ed = core.digest(res["events"])
    if res["violations"]:
        o, m, k = res["violations"][0]
        return core.violation(o, m, log, key=k, stats=stats, spec=spec, events_digest=ed, group=spec.get("group"))
    return core.ok(log, stats=stats, nontrivial=f"{spec.get('slot')}:{spec.get('pre')}:{spec.get('fresh')}", events_digest=ed, group=spec.get("group"))


def post(pool, pairs, tier, rng):
    by: dict = {}
    for s, r in pairs:
        if isinstance(r, dict) and r.get("events_digest") and s.get("group") is not None:
            by.setdefault(s["group"], {}).setdefault(r["events_digest"], []).append(s)
    more = []
    for g, d in by.items():
        if len(d) > 1:
            specs = [v[0] for v in d.values()]
            s0 = dict(specs[0], fresh={"hashseed": pool.hashseeds[(specs[1].get("slot") or 0) % len(pool.hashseeds)], "pre": specs[1].get("pre", "none"), "optimize": ((specs[1].get("slot") or 0) % len(pool.hashseeds)) in pool.optimize_slots}, group=None)
            r = pool.run([{"prop": PROP, "tier": tier, "timeout": JOB_TIMEOUT, "spec": s0, "slot": s0.get("slot")}])[0]
            if isinstance(r, dict) and r.get("status") == "violation":
                more.append((s0, r))
            else:
                more.append((s0, {"__harness__": "cross-process log mismatch did not reproduce in a fresh interpreter", "digests": sorted(d)}))
    n_proc = sum(len(v) for d in by.values() for v in d.values())
    return more, {"processes_compared": n_proc, "groups_agreeing": sum(1 for d in by.values() if len(d) == 1), "groups": len(by)}


def minimise_budget(spec):
    return 6


def gen_specs(rng: random.Random, tier: str, n: int) -> list[dict]:
    K = HASHSEED_SLOTS[tier]
    seed = rng.getrandbits(48)
    pres = ["none", "dataset-work", "construct-some", "legacy-first"]
    specs = []
    for slot in range(K):
        for j in range(n):
            specs.append({"seed": seed, "sample": SAMPLE[tier], "slot": slot, "pre": pres[(slot * n + j) % len(pres)], "group": 0, "full_digests": tier == "thorough"})
    # one run whose twin lives in a fresh interpreter started with warnings turned into errors (`python -W error`)
    specs.append({"seed": seed, "sample": SAMPLE[tier] // 3, "slot": 1, "pre": "none", "group": None, "full_digests": False, "fresh": {"hashseed": rng.randrange(1, 2**32 - 1), "pre": "none", "strict_warnings": True}})
    # histories on the memoised module-level enumeration (2.6 GB and ~2.5 min each: one process in the quick tier, one per
    # hash-seed slot - compared with each other - in the thorough tier)
    for slot in range(1 if tier == "quick" else K):
        specs.append({"mode": "module-history", "seed": seed, "slot": slot, "group": 1, "n_ops": 3, "pre": "module", "full_digests": False, "sample": 0})
    # one run whose twin lives in a truly fresh interpreter (no fork server, no warm-up)
    specs.append({"seed": seed, "sample": SAMPLE[tier] // 3, "slot": 0, "pre": "none", "group": None, "full_digests": False, "fresh": {"hashseed": rng.randrange(1, 2**32 - 1), "pre": "dataset-work", "optimize": True}})
    return specs


def shrink(spec: dict, result: dict):
    if spec.get("sample", 0) > 50:
        yield dict(spec, sample=50)
    if spec.get("full_digests"):
        yield dict(spec, full_digests=False)
    if spec.get("pre", "none") != "none":
        yield dict(spec, pre="none")


def sample_of(spec, result):
    return {"slot": spec.get("slot"), "pre": spec.get("pre"), "sample": spec.get("sample"), "full_digests": spec.get("full_digests"), "fresh": spec.get("fresh"), "events_digest": result.get("events_digest")}
