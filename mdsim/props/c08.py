"""C08 — filters select exactly what they document and never disturb their input (DESIGN §3 C08).

Refinement of the real (aliasing, shared-config) objects against a sequential reference model over seeded
operation histories. One run = one history in a pristine process.
"""

from __future__ import annotations

import json
import math
import random
from fractions import Fraction

import numpy as np

from mdsim import core
from mdsim.props import _ds
from mdsim.props.c05 import canon_meta

PROP = "C08"
LEVEL = "exploration"
TECHNIQUE = "deterministic simulation: seeded histories of filter applications over aliasing dataset objects, checked step by step against a sequential reference model (refinement)"
RUNS = {"quick": 1200, "thorough": 80000}
BATCH = {}
JOB_TIMEOUT = 600.0
COMPONENTS = {
    "real": ["MazeDatasetFilters (all built-in filters)", "register_maze_filter / register_dataset_filter wrappers", "MazeDataset.custom_maze_filter", "MazeDataset.__deepcopy__ (serialize/load)", "from_config + _apply_filters_from_config"],
    "stub": [],
}
RULE = (
    "one run = one history of 4-10 filter applications over a pool of live datasets that alias each other (inputs seeded with exact and "
    "near duplicates at first/middle/last positions, parameters drawn at and around the decision boundaries of the current data); "
    "distinct = distinct (filter-name sequence, boundary class of each parameter, result sizes) digests; non-trivial = >= 2 filter applications"
)
LEVEL_TEXT = (
    "Seeded histories of filter applications on shared/aliased dataset objects; after every step the real result, the real input and the real configurations are compared with a sequential reference model working on plain data (exact rational percentile, duplicate rules, provenance list, metadata counters), and config-driven application is compared with the manual chain. Inputs include datasets on both sides of the size threshold, read-back (narrow integer) and merged mixed-type datasets, hand-built large-grid and same-endpoint/different-route mazes, metadata with falsy values; the format threshold is a per-history knob; one interpreter slot in three runs under python -O. Sampling, not proof.",
    "Trusted: NumPy; the percentile model accepts either neighbouring cutoff only when the interpolated percentile lies within 1e-9 of an integer and NumPy's floating-point evaluation is not provably exact (validated against np.percentile in selftest-models).",
)


# ---- predicates for custom_maze_filter (module level: they have a __name__) -----------------------
def sol_len_at_least(m, k=2):
    return len(m.solution) >= k


def start_row_is(m, r=0):
    return int(m.start_pos[0]) == r


def end_col_is(m, c=0):
    # answers with a NumPy boolean, as any predicate written with array comparisons does
    return m.end_pos[1] == c


def far_apart(m, d=2):
    return np.abs(np.asarray(m.start_pos, dtype=np.int64) - np.asarray(m.end_pos, dtype=np.int64)).sum() >= d  # np.bool_


PREDS = {"sol_len_at_least": sol_len_at_least, "start_row_is": start_row_is, "end_col_is": end_col_is, "far_apart": far_apart}


# ---- reference model --------------------------------------------------------------------------------
class Model:
    """plain-data twin of a MazeDataset"""

    def __init__(self, records, metas, filters, collected, base_key):
        self.records = records  # [shape, conn_hex, sol_list]
        self.metas = metas  # per maze: canonical per-maze metadata contribution (dict key -> list of canon values) or None
        self.filters = filters  # provenance
        self.collected = collected  # canonical collected metadata or None
        self.base_key = base_key  # cfg key without applied_filters / n_mazes

    def clone(self):
        return Model(list(self.records), list(self.metas), [dict(f) for f in self.filters], None if self.collected is None else {k: dict(v) for k, v in self.collected.items()}, dict(self.base_key))


def meta_contrib(meta):
    "what one maze contributes to the collected counters: {key: [canon value, ...]}"
    if meta is None:
        return None
    out = {}
    for key, value in meta.items():
        if isinstance(value, (bool, np.bool_)):
            out[str(key)] = [str(bool(value))]
        elif isinstance(value, (int, np.integer)):
            out[str(key)] = [str(int(value))]
        elif isinstance(value, (float, np.floating)):
            out[str(key)] = [str(float(value))]
        elif isinstance(value, str):
            out[str(key)] = [value]
        elif isinstance(value, (set, frozenset)):
            out[str(key)] = ["(" + ", ".join(str(int(x)) for x in v) + ")" for v in value]
        elif isinstance(value, (list, np.ndarray)):
            arr = np.array(value)
            if arr.ndim == 1 and arr.shape[0] == 2:
                out[str(key)] = ["(" + ", ".join(str(int(x)) for x in arr) + ")"]
            elif arr.ndim == 2 and arr.shape[1] == 2:
                out[str(key)] = ["(" + ", ".join(str(int(x)) for x in v) + ")" for v in arr]
            else:
                out[str(key)] = ["<unsupported>"]
        else:
            out[str(key)] = ["<unsupported>"]
    return out


def model_of(ds) -> Model:
    k = _ds.cfg_key(ds.cfg)
    filters = k.pop("applied_filters")
    return Model([_ds.maze_record(m) for m in ds.mazes], [meta_contrib(m.generation_meta) for m in ds.mazes], filters, canon_meta(ds.generation_metadata_collected), k)


def exact_percentile(lengths: list, p: float) -> Fraction:
    "linear-interpolation percentile (NumPy's default method) in exact rational arithmetic"
    a = sorted(lengths)
    n = len(a)
    pos = Fraction(p) / 100 * (n - 1)
    lo = int(pos)  # floor, pos >= 0
    hi = min(lo + 1, n - 1)
    frac = pos - lo
    return Fraction(a[lo]) + frac * (a[hi] - a[lo])


def percentile_is_exact_in_floats(lengths: list, p: float) -> bool:
    """True when NumPy's floating-point evaluation of the interpolated percentile cannot deviate from the exact rational value,
    so that `int(np.percentile(...))` is exactly floor(q) and no tolerance is due: either the virtual index (n-1)*p/100 is
    computed exactly in floats (then the linear interpolation of integers is correctly rounded, hence exact whenever q is an
    integer), or every element a virtual index within rounding distance of the exact one can touch has the same value."""
    a = sorted(lengths)
    n = len(a)
    pos = Fraction(p) / 100 * (n - 1)
    pos_f = (n - 1) * (float(p) / 100.0)
    if Fraction(pos_f) == pos:
        return True
    lo = int(pos)
    hi = min(lo + 1, n - 1)
    touched = {a[lo], a[hi]}
    if pos == lo and lo > 0:
        touched.add(a[lo - 1])
    return len(touched) == 1


def conn_diff(r1, r2):
    if r1[0] != r2[0]:
        return None
    a = np.frombuffer(bytes.fromhex(r1[1]), dtype=np.uint8)
    b = np.frombuffer(bytes.fromhex(r2[1]), dtype=np.uint8)
    return int((a != b).sum())


def sol_diff(r1, r2):
    if len(r1[2]) != len(r2[2]):
        return None
    return int((np.array(r1[2]) != np.array(r2[2])).sum())


def model_filter(m: Model, f: dict):
    """returns (kept indices | [alternatives], notes). Raises NotJudged for parameters outside the documented domain."""
    name = f["name"]
    args = list(f.get("args", []))
    kw = dict(f.get("kwargs", {}))
    R = m.records
    if name == "path_length":
        k = args[0] if args else kw["min_length"]
        return [i for i, r in enumerate(R) if len(r[2]) >= k]
    if name == "start_end_distance":
        d = args[0] if args else kw["min_distance"]
        return [i for i, r in enumerate(R) if abs(r[2][0][0] - r[2][-1][0]) + abs(r[2][0][1] - r[2][-1][1]) >= d]
    if name == "cut_percentile_shortest":
        p = args[0] if args else kw.get("percentile", 10.0)
        if not R:
            raise core.NotJudged("percentile-of-empty")
        q = exact_percentile([len(r[2]) for r in R], p)
        cut = math.floor(q)
        alts = [[i for i, r in enumerate(R) if len(r[2]) > cut]]
        near = q - round(q)
        if abs(near) < Fraction(1, 10**9) and not percentile_is_exact_in_floats([len(r[2]) for r in R], p):
            for c2 in (round(q) - 1, round(q)):
                alt = [i for i, r in enumerate(R) if len(r[2]) > c2]
                if alt not in alts:
                    alts.append(alt)
        return {"alternatives": alts}
    if name == "truncate_count":
        n = args[0] if args else kw["max_count"]
        return list(range(min(n, len(R))))
    if name == "remove_duplicates":
        thr_c = args[0] if len(args) > 0 else kw.get("minimum_difference_connection_list", 1)
        thr_s = args[1] if len(args) > 1 else kw.get("minimum_difference_solution", 1)
        keep = []
        for i in range(len(R)):
            uniq = True
            for j in range(i + 1, len(R)):
                if thr_c is not None:
                    d = conn_diff(R[i], R[j])
                    if d is not None and d <= thr_c:
                        uniq = False
                        break
                if thr_s is not None:
                    d = sol_diff(R[i], R[j])
                    if d is not None and d <= thr_s:
                        uniq = False
                        break
            if uniq:
                keep.append(i)
        return keep
    if name == "remove_duplicates_fast":
        seen = set()
        keep = []
        for i, r in enumerate(R):
            k = (tuple(r[0]), r[1], core.canon(r[2]))
            if k not in seen:
                seen.add(k)
                keep.append(i)
        return keep
    if name == "strip_generation_meta":
        return list(range(len(R)))
    if name.startswith("__custom__:"):
        pn = name.split(":", 1)[1]
        if pn == "sol_len_at_least":
            return [i for i, r in enumerate(R) if len(r[2]) >= kw.get("k", 2)]
        if pn == "start_row_is":
            return [i for i, r in enumerate(R) if r[2][0][0] == kw.get("r", 0)]
        if pn == "end_col_is":
            return [i for i, r in enumerate(R) if r[2][-1][1] == kw.get("c", 0)]
        if pn == "far_apart":
            return [i for i, r in enumerate(R) if abs(r[2][0][0] - r[2][-1][0]) + abs(r[2][0][1] - r[2][-1][1]) >= kw.get("d", 2)]
    raise KeyError(name)


def collect_counts(metas):
    out: dict = {}
    for mc in metas:
        for key, vals in mc.items():
            d = out.setdefault(key, {})
            for v in vals:
                d[v] = d.get(v, 0) + 1
    return out


# ---- comparison helpers ----------------------------------------------------------------------------------
def check_unchanged(ds, before: Model, what: str):
    now = model_of(ds)
    if now.records != before.records:
        raise core.Violation("C08.input-disturbed", f"{what}: the input dataset's mazes changed ({len(before.records)} -> {len(now.records)})")
    if now.filters != before.filters or now.base_key != before.base_key:
        raise core.Violation("C08.input-disturbed", f"{what}: the input dataset's configuration changed: filters {before.filters} -> {now.filters}")
    if int(ds.cfg.n_mazes) != before.n_mazes_cfg:
        raise core.Violation("C08.input-disturbed", f"{what}: the input configuration's maze count changed {before.n_mazes_cfg} -> {ds.cfg.n_mazes}")
    if now.collected != before.collected:
        raise core.Violation("C08.input-disturbed", f"{what}: the input dataset's collected metadata changed")
    if now.metas != before.metas:
        n = sum(1 for a, b in zip(now.metas, before.metas) if a != b)
        raise core.Violation("C08.input-disturbed", f"{what}: the per-maze generation metadata of {n} maze(s) of a dataset that was not the target of an in-place operation changed (it shares maze objects with another dataset)", key="per-maze-metadata-disturbed-through-shared-maze-objects")


def norm_filter(f):
    return {"name": f["name"], "args": _ds._norm(list(f.get("args", []))), "kwargs": _ds._norm(dict(f.get("kwargs", {})))}


def check_result(res, expect_records_alts, expect_filters, base_key, what: str):
    got = model_of(res)
    if got.records not in expect_records_alts:
        exp = expect_records_alts[0]
        raise core.Violation("C08.selection", f"{what}: result has {len(got.records)} mazes, the documented rule selects {len(exp)}" + ("" if len(got.records) != len(exp) else " (same count, different mazes/order)"))
    if got.filters != expect_filters:
        raise core.Violation("C08.provenance", f"{what}: result records filters {got.filters}, expected {expect_filters}")
    if int(res.cfg.n_mazes) != len(res.mazes):
        raise core.Violation("C08.maze-count", f"{what}: result cfg.n_mazes={res.cfg.n_mazes} but it holds {len(res.mazes)} mazes")
    if got.base_key != base_key:
        raise core.Violation("C08.provenance", f"{what}: result configuration differs from the input's in a field other than filters/count")
    return got


# ---- history execution -------------------------------------------------------------------------------------
def build_input(op, pool):
    from maze_dataset import MazeDataset

    if op[0] == "make":
        return MazeDataset.from_config(_ds.make_cfg(op[1]), load_local=False, save_local=False)
    if op[0] == "dup":  # exact duplicates planted at chosen positions of an existing dataset
        src = pool[op[1] % len(pool)]
        if len(src) == 0:
            return None
        idx = [i % len(src) for i in op[2]]
        import copy

        from maze_dataset import SolvedMaze

        cfg = copy.deepcopy(src.cfg)
        # equal by value, distinct as objects (as duplicates produced by generation are)
        mazes = [SolvedMaze(connection_list=src.mazes[i].connection_list.copy(), solution=src.mazes[i].solution.copy(), generation_meta=copy.deepcopy(src.mazes[i].generation_meta)) for i in idx]
        d = MazeDataset(cfg=cfg, mazes=mazes, generation_metadata_collected=None)
        d.update_self_config()
        return d
    if op[0] == "chain":
        # graded perturbations of one maze: variant j has j*step additional connections, so neighbours in the chain are
        # within a connection threshold of `step` while the ends are not ("within a threshold" is not transitive);
        # solutions get pairwise different lengths so that only the connection criterion can match
        src = pool[op[1] % len(pool)]
        if len(src) == 0:
            return None
        import copy

        import numpy as np
        from maze_dataset import SolvedMaze

        base = src.mazes[op[2] % len(src)]
        conn0 = np.array(base.connection_list, dtype=np.bool_)
        _, r, c = conn0.shape
        closed = [(d, i, j) for d in range(2) for i in range(r) for j in range(c) if not conn0[d, i, j] and not (d == 0 and i == r - 1) and not (d == 1 and j == c - 1)]
        n_var, step = op[3], op[4]
        variants = []
        sol = np.array(base.solution)
        for j in range(n_var):
            if j * step > len(closed) or len(sol) - j < 1:
                break
            conn = conn0.copy()
            for d, a, b in closed[: j * step]:
                conn[d, a, b] = True
            variants.append(SolvedMaze(connection_list=conn, solution=sol[: len(sol) - j].copy(), generation_meta=copy.deepcopy(base.generation_meta)))
        if len(variants) < 2:
            return None
        order = [k % len(variants) for k in op[5]] if op[5] else list(range(len(variants)))
        seen = set()
        mazes = []
        for k in order + list(range(len(variants))):
            if k not in seen:
                seen.add(k)
                mazes.append(variants[k])
        # unrelated mazes from the source in between
        for pos, idx in op[6]:
            m = src.mazes[idx % len(src)]
            mazes.insert(pos % (len(mazes) + 1), SolvedMaze(connection_list=m.connection_list.copy(), solution=m.solution.copy(), generation_meta=copy.deepcopy(m.generation_meta)))
        d = MazeDataset(cfg=copy.deepcopy(src.cfg), mazes=mazes, generation_metadata_collected=None)
        d.update_self_config()
        return d
    if op[0] == "narrow":
        # the same mazes as they come back from an archive in a minimal format: solutions in a narrow integer type
        src = pool[op[1] % len(pool)]
        if len(src) == 0:
            return None
        import copy

        return MazeDataset.load(copy.deepcopy(src)._serialize_minimal())
    if op[0] == "concat":
        # two datasets of the same grid merged by hand (e.g. a freshly generated one and one read back from an archive):
        # equal mazes may then sit next to each other in different integer types
        a, b = pool[op[1] % len(pool)], pool[op[2] % len(pool)]
        if len(a) == 0 or len(b) == 0 or int(a.cfg.grid_n) != int(b.cfg.grid_n) or a.cfg.name == "line" or b.cfg.name == "line":
            return None
        import copy

        from maze_dataset import SolvedMaze

        mazes = [SolvedMaze(connection_list=z.connection_list.copy(), solution=z.solution.copy(), generation_meta=copy.deepcopy(z.generation_meta)) for z in list(a.mazes) + list(b.mazes)]
        if len({z.generation_meta is None for z in mazes}) > 1:
            mazes = [SolvedMaze(connection_list=z.connection_list, solution=z.solution, generation_meta=None) for z in mazes]
        d = MazeDataset(cfg=copy.deepcopy(a.cfg), mazes=mazes, generation_metadata_collected=None)
        d.update_self_config()
        return d
    if op[0] == "ring":
        # hand-built mazes whose connections form the perimeter ring of a g x g grid: between two cells of the ring there are
        # two routes, so several mazes can share connection structure, start and end and still differ in their solutions
        # (neither exact duplicates nor, with thresholds 0, near duplicates); equal-length routes exist between opposite corners
        import numpy as np
        from maze_dataset import MazeDatasetConfig, SolvedMaze

        g, picks = op[1], op[2]
        conn = np.zeros((2, g, g), dtype=np.bool_)
        conn[1, 0, : g - 1] = True
        conn[1, g - 1, : g - 1] = True
        conn[0, : g - 1, 0] = True
        conn[0, : g - 1, g - 1] = True
        ring = [[0, c] for c in range(g)] + [[r, g - 1] for r in range(1, g)] + [[g - 1, c] for c in range(g - 2, -1, -1)] + [[r, 0] for r in range(g - 2, 0, -1)]
        n = len(ring)
        mazes = []
        for a, b, clockwise in picks:
            a, b = a % n, b % n
            if a == b:
                b = (a + n // 2) % n
            path = []
            i = a
            while True:
                path.append(ring[i])
                if i == b:
                    break
                i = (i + (1 if clockwise else -1)) % n
            mazes.append(SolvedMaze(connection_list=conn.copy(), solution=np.array(path, dtype=np.int64)))
        return MazeDataset(cfg=MazeDatasetConfig(name="line", grid_n=g, n_mazes=len(mazes)), mazes=mazes)
    if op[0] == "line":
        # hand-built mazes on a large grid (no generator, no solver): an L-shaped corridor from (r0, c0) right `a` cells and
        # down `b` cells, which is its own shortest solution; start-end distances reach and exceed 127; solution arrays in
        # int64 (as generated) or int8 (as loaded from a minimal archive)
        import numpy as np
        from maze_dataset import MazeDatasetConfig, SolvedMaze

        g, segs, dt = op[1], op[2], op[3]
        mazes = []
        for r0, c0, a, b in segs:
            r0, c0 = r0 % g, c0 % g
            a, b = min(a, g - 1 - c0), min(b, g - 1 - r0)
            conn = np.zeros((2, g, g), dtype=np.bool_)
            conn[1, r0, c0 : c0 + a] = True
            conn[0, r0 : r0 + b, c0 + a] = True
            sol = [[r0, c] for c in range(c0, c0 + a + 1)] + [[r, c0 + a] for r in range(r0 + 1, r0 + b + 1)]
            mazes.append(SolvedMaze(connection_list=conn, solution=np.array(sol, dtype=np.int8 if dt == "int8" else np.int64)))
        return MazeDataset(cfg=MazeDatasetConfig(name="line", grid_n=g, n_mazes=len(mazes)), mazes=mazes)
    raise KeyError(op[0])


def apply_real(ds, f):
    name = f["name"]
    if name.startswith("__custom__:"):
        return ds.custom_maze_filter(PREDS[name.split(":", 1)[1]], **f.get("kwargs", {}))
    return getattr(ds.filter_by, name)(*f.get("args", []), **f.get("kwargs", {}))


def boundary_params(rng_vals, m: Model, f: dict) -> dict:
    "resolve symbolic parameters (relative to the current data) into concrete ones"
    f = dict(f)
    sym = f.pop("sym", None)
    if not sym:
        return f
    lens = sorted(len(r[2]) for r in m.records) or [1]
    dists = sorted(abs(r[2][0][0] - r[2][-1][0]) + abs(r[2][0][1] - r[2][-1][1]) for r in m.records) or [0]
    n = len(m.records)
    kind, off = sym
    if kind == "len-median":
        f["args"] = [max(0, lens[len(lens) // 2] + off)]
    elif kind == "len-min":
        f["args"] = [max(0, lens[0] + off)]
    elif kind == "len-max":
        f["args"] = [max(0, lens[-1] + off)]
    elif kind == "dist-min":
        f["args"] = [max(0, dists[0] + off)]
    elif kind == "dist-median":
        f["args"] = [max(0, dists[len(dists) // 2] + off)]
    elif kind == "count":
        f["args"] = [max(0, n + off)]
    elif kind == "count-kw":
        f["kwargs"] = {"max_count": max(0, n + off)}
    return f


def st_history(spec, log, stats):
    from maze_dataset import MazeDataset

    pool: list = []  # real datasets
    n_filters = 0
    name_seq = []
    for op in spec["ops"]:
        kind = op[0]
        if kind in ("make", "dup", "chain", "narrow", "line", "ring", "concat"):
            try:
                d = build_input(op, pool)
            except Exception as e:  # noqa: BLE001 - generation errors are not C08's business
                log.add("make-failed", type(e).__name__)
                continue
            if d is not None:
                pool.append(d)
                log.add(kind, len(d))
            continue
        if kind == "threshold":
            # process-global knob that silently selects the storage format (DESIGN N7); no filter may depend on it
            from maze_dataset.dataset.maze_dataset import set_serialize_minimal_threshold

            set_serialize_minimal_threshold(op[1])
            log.add("threshold", op[1])
            stats["knob_threshold_changed"] = stats.get("knob_threshold_changed", 0) + 1
            continue
        if not pool:
            continue
        if kind == "filter":
            src_i = op[1] % len(pool)
            src = pool[src_i]
            m = model_of(src)
            m.n_mazes_cfg = int(src.cfg.n_mazes)
            f = boundary_params(None, m, op[2])
            what = f"{f['name']}(*{f.get('args', [])}, **{f.get('kwargs', {})}) on dataset #{src_i} (len {len(src)})"
            name = f["name"]
            is_collect = name == "collect_generation_meta"
            # ---- what the documented rule says
            try:
                if is_collect:
                    sel = list(range(len(m.records)))
                else:
                    sel = model_filter(m, f)
            except core.NotJudged as e:
                stats["not_judged_" + e.reason] = stats.get("not_judged_" + e.reason, 0) + 1
                continue
            alts = sel["alternatives"] if isinstance(sel, dict) else [sel]
            if isinstance(sel, dict) and len(alts) > 1:
                stats["percentile_within_1e-9_of_integer"] = stats.get("percentile_within_1e-9_of_integer", 0) + 1
            # other live datasets must not be disturbed either (aliasing)
            others = [(j, model_of(o), int(o.cfg.n_mazes)) for j, o in enumerate(pool) if o is not src]
            # ---- the real thing
            if is_collect:
                kw = f.get("kwargs", {})
                if m.collected is None and len(src) == 0:
                    continue  # dataset[0] of an empty dataset: outside the documented domain
                missing = any(x is None for x in m.metas)
                if m.collected is None and missing and m.metas and m.metas[0] is None:
                    continue  # documented assertion: nothing to collect from
                if m.collected is None and missing:
                    if kw.get("allow_fail"):
                        continue  # partial collection: behaviour not specified by the statement
                    try:
                        apply_real(src, f)
                    except ValueError:
                        stats["collect_missing_meta_raises"] = stats.get("collect_missing_meta_raises", 0) + 1
                        # a failed in-place collection may have cleared some per-maze metadata: drop the dataset
                        pool.pop(src_i)
                        continue
                    raise core.Violation("C08.collect-missing-meta", f"{what}: some mazes lack metadata, yet collection did not raise")
            try:
                res = apply_real(src, f)
            except Exception as e:  # noqa: BLE001
                key = None
                msg = str(e)
                if isinstance(e, ValueError) and "truth value of an array" in msg and name == "remove_duplicates_fast":
                    key = "remove_duplicates_fast:input-contains-exact-duplicate"
                if isinstance(e, ValueError) and "failed to load applied filters" in msg and any(x["name"].startswith("__custom__:") for x in m.filters):
                    key = "filter-after-custom_maze_filter"
                raise core.Violation("C08.filter-raised", f"{what} raised {type(e).__name__}: {msg[:200]}", key=key)
            n_filters += 1
            name_seq.append(name)
            exp_filters = m.filters + [norm_filter(f) if not name.startswith("__custom__:") else {"name": name, "args": [], "kwargs": _ds._norm(f.get("kwargs", {}))}]
            exp_alts = [[m.records[i] for i in a] for a in alts]
            inplace = is_collect and (f.get("kwargs", {}).get("inplace", True) or m.collected is not None)
            got = check_result(res, exp_alts, exp_filters, m.base_key, what)
            if is_collect:
                if inplace and res is not src:
                    raise core.Violation("C08.collect-inplace", f"{what}: documented in-place collection returned a different object")
                if not inplace and res is src:
                    raise core.Violation("C08.collect-inplace", f"{what}: inplace=False returned the input object")
                if m.collected is None:
                    expc = collect_counts([x for x in m.metas])
                    if got.collected != expc:
                        bad = [k for k in set(expc) | set(got.collected or {}) if (got.collected or {}).get(k) != expc.get(k)]
                        raise core.Violation("C08.metadata-counts", f"{what}: collected counts differ from exact value counts for keys {sorted(bad)[:5]}")
                    clear = f.get("kwargs", {}).get("clear_in_mazes", True)
                    has = [x is not None for x in got.metas]
                    if clear and any(has):
                        raise core.Violation("C08.metadata-counts", f"{what}: clear_in_mazes=True left per-maze metadata behind")
                    if not clear and not all(has):
                        raise core.Violation("C08.metadata-counts", f"{what}: clear_in_mazes=False removed per-maze metadata")
                    stats["probe_metadata_collected"] = stats.get("probe_metadata_collected", 0) + 1
                elif got.collected != m.collected:
                    raise core.Violation("C08.metadata-counts", f"{what}: already-collected metadata changed")
            else:
                if name == "strip_generation_meta" and any(x is not None for x in got.metas):
                    raise core.Violation("C08.strip-meta", f"{what}: per-maze metadata still present after strip_generation_meta")
                if name in ("remove_duplicates", "remove_duplicates_fast", "strip_generation_meta") and got.collected != m.collected:
                    raise core.Violation("C08.metadata-counts", f"{what}: collected metadata not carried over")
            if not inplace:
                if res is src:
                    raise core.Violation("C08.returns-new-dataset", f"{what}: filter returned its input object")
                if any(res is o for o in pool):
                    raise core.Violation("C08.returns-new-dataset", f"{what}: filter returned an object that already exists (the result of an earlier application), not a new dataset")
                check_unchanged(src, m, what)
            for j, om, on in others:
                om.n_mazes_cfg = on
                check_unchanged(pool[j], om, what + f" [bystander #{j}]")
            if res is not src:
                pool.append(res)
            log.add("filter", name, _boundary_class(op[2]), len(src), len(res))
            if src.mazes and src.mazes[0].solution.dtype != np.int64:
                stats["probe_input_narrow_dtype"] = stats.get("probe_input_narrow_dtype", 0) + 1
            if src.cfg.name == "line":
                stats["probe_input_large_grid_handbuilt"] = stats.get("probe_input_large_grid_handbuilt", 0) + 1
            if len(src) >= 100:
                stats["probe_input_at_least_100_mazes"] = stats.get("probe_input_at_least_100_mazes", 0) + 1
            if len(res) >= 100:
                stats["probe_result_at_least_100_mazes"] = stats.get("probe_result_at_least_100_mazes", 0) + 1
            if len(m.filters) >= 1 and norm_filter(f) == m.filters[-1]:
                stats["probe_same_filter_twice_in_a_row"] = stats.get("probe_same_filter_twice_in_a_row", 0) + 1
            if len(res) == 0:
                stats["probe_empty_result"] = stats.get("probe_empty_result", 0) + 1
            if name.startswith("remove_duplicates") and len(res) < len(m.records):
                stats["probe_duplicates_removed"] = stats.get("probe_duplicates_removed", 0) + 1
            stats["f_" + name.split(":")[0]] = stats.get("f_" + name.split(":")[0], 0) + 1
        elif kind == "config_chain":
            # the same chain applied by the config-driven entry point must equal the manual chain
            src = pool[op[1] % len(pool)]
            m = model_of(src)
            if any(x["name"].startswith("__custom__:") or x["name"] in ("collect_generation_meta",) for x in m.filters) or not m.filters:
                continue
            if src.cfg.name == "line":
                continue  # hand-built: there is no generator configuration to replay
            base = src.cfg
            cfgspec = {
                "name": base.name,
                "grid_n": int(base.grid_n),
                "n_mazes": op[2],
                "maze_ctor": base.maze_ctor.__name__,
                "maze_ctor_kwargs": _ds._norm(base.maze_ctor_kwargs),
                "endpoint_kwargs": _ds._norm(base.endpoint_kwargs),
                "seed": base.seed,
                "applied_filters": m.filters,
            }
            plain = dict(cfgspec, applied_filters=[])
            try:
                manual = MazeDataset.from_config(_ds.make_cfg(plain), load_local=False, save_local=False)
                for f in m.filters:
                    manual = apply_real(manual, f)
                driven = MazeDataset.from_config(_ds.make_cfg(cfgspec), load_local=False, save_local=False)
            except Exception as e:  # noqa: BLE001
                if _ds.is_documented_error(e) or isinstance(e, IndexError):
                    continue
                raise core.Violation("C08.config-driven-raised", f"config-driven chain {[x['name'] for x in m.filters]} raised {type(e).__name__}: {str(e)[:200]}")
            a, b = model_of(manual), model_of(driven)
            if a.records != b.records:
                raise core.Violation("C08.config-driven-equals-manual", f"filters {[x['name'] for x in m.filters]}: config-driven result has {len(b.records)} mazes, manual chain {len(a.records)}")
            if a.filters != b.filters:
                raise core.Violation("C08.config-driven-equals-manual", f"config-driven provenance {b.filters} != manual {a.filters}")
            stats["probe_config_chain_checked"] = stats.get("probe_config_chain_checked", 0) + 1
            log.add("config_chain", [x["name"] for x in m.filters], len(b.records))
    stats["filters_applied"] = n_filters
    return log, stats, n_filters


def _boundary_class(f):
    return f.get("sym") or [f["name"], f.get("args"), f.get("kwargs")]


def run(spec: dict, ctx) -> dict:
    log = core.EventLog()
    stats: dict = {}
    try:
        _, _, nf = st_history(spec, log, stats)
    except core.Violation as v:
        log.add("violation", v.oracle)
        return core.violation(v.oracle, v.msg, log, key=v.key, stats=stats, spec=spec)
    return core.ok(log, stats=stats, nontrivial=log.digest() if nf >= 2 else None)


# ---- history generation (main process) --------------------------------------------------------------------------
def rand_filter(rng: random.Random) -> dict:
    r = rng.random()
    if r < 0.14:
        return {"name": "path_length", "sym": [rng.choice(["len-median", "len-min", "len-max"]), rng.choice([-1, 0, 1])]}
    if r < 0.26:
        return {"name": "start_end_distance", "sym": [rng.choice(["dist-min", "dist-median"]), rng.choice([-1, 0, 1])]}
    if r < 0.40:
        return {"name": "cut_percentile_shortest", "args": [rng.choice([0.0, 10.0, 25.0, 50.0, 75.0, 100.0, 33.3, round(rng.uniform(0, 100), 2), float(rng.randint(0, 100))])], "kwargs": {}}
    if r < 0.52:
        if rng.random() < 0.5:
            return {"name": "truncate_count", "sym": ["count", rng.choice([-2, -1, 0, 1, -100])]}
        return {"name": "truncate_count", "sym": ["count-kw", rng.choice([-2, -1, 0, 1])]}
    if r < 0.64:
        c = rng.choice([1, 1, 0, 2, 3, None])
        s = rng.choice([1, 1, 0, 2, 4, None])
        if rng.random() < 0.3:
            return {"name": "remove_duplicates", "args": [], "kwargs": {}}
        if rng.random() < 0.5:
            return {"name": "remove_duplicates", "args": [c, s], "kwargs": {}}
        return {"name": "remove_duplicates", "args": [], "kwargs": {"minimum_difference_connection_list": c, "minimum_difference_solution": s}}
    if r < 0.74:
        return {"name": "remove_duplicates_fast", "args": [], "kwargs": {}}
    if r < 0.80:
        return {"name": "strip_generation_meta", "args": [], "kwargs": {}}
    if r < 0.90:
        kw = {}
        if rng.random() < 0.6:
            kw["clear_in_mazes"] = rng.random() < 0.5
        if rng.random() < 0.6:
            kw["inplace"] = rng.random() < 0.5
        if rng.random() < 0.2:
            kw["allow_fail"] = rng.random() < 0.5
        return {"name": "collect_generation_meta", "args": [], "kwargs": kw}
    which = rng.random()
    if which < 0.3:
        return {"name": "__custom__:sol_len_at_least", "kwargs": {"k": rng.randint(1, 5)}}
    if which < 0.55:
        return {"name": "__custom__:start_row_is", "kwargs": {"r": rng.randint(0, 2)}}
    if which < 0.8:
        return {"name": "__custom__:end_col_is", "kwargs": {"c": rng.randint(0, 2)}}
    return {"name": "__custom__:far_apart", "kwargs": {"d": rng.randint(1, 4)}}


def gen_specs(rng: random.Random, tier: str, n: int) -> list[dict]:
    specs = []
    for _ in range(n):
        ops: list = []
        grid = rng.choice([2, 2, 3, 3, 3, 4])
        big = rng.random() < 0.12  # sizes on both sides of the default minimal-format threshold (100)
        if big:
            grid = rng.choice([3, 4, 5])
        if rng.random() < 0.2:
            ops.append(["threshold", rng.choice([None, 0, 1, 5, 100])])
        cfg = {
            "name": rng.choice(["t", "f"]),
            "grid_n": grid,
            "n_mazes": rng.randint(98, 130) if big else rng.randint(3, 30 if grid <= 3 else 14),
            "maze_ctor": rng.choice(["gen_dfs", "gen_dfs", "gen_wilson", "gen_dfs_percolation", "gen_percolation"]),
            "maze_ctor_kwargs": {},
            "endpoint_kwargs": {},
            "seed": rng.choice([42, 1, 7, rng.randrange(10**6)]),
            "applied_filters": [],
        }
        if cfg["maze_ctor"] in ("gen_percolation", "gen_dfs_percolation"):
            cfg["maze_ctor_kwargs"] = {"p": rng.choice([0.3, 0.5, 0.8])}
        if rng.random() < 0.3 and grid >= 3:
            # generator arguments whose metadata carries falsy values too (fully_connected=False, do_forks=False, ...)
            cfg["maze_ctor"] = rng.choice(["gen_dfs", "gen_prim", "gen_dfs_percolation"])
            cfg["maze_ctor_kwargs"] = rng.choice([{"accessible_cells": grid * grid - 2}, {"do_forks": False}, {"accessible_cells": 0.6, "do_forks": False}, {"max_tree_depth": 3}])
            if cfg["maze_ctor"] == "gen_dfs_percolation":
                cfg["maze_ctor_kwargs"] = {"accessible_cells": grid * grid - 2, "p": 0.2}
        ops.append(["make", cfg])
        if rng.random() < 0.6:
            k = rng.randint(3, 9)
            ops.append(["dup", 0, [rng.choice([0, 0, 1, 2, 3, 5]) if rng.random() < 0.5 else rng.randrange(30) for _ in range(k)]])
        if rng.random() < 0.3:
            nv = rng.randint(3, 5)
            step = rng.choice([1, 1, 2, 3])
            ops.append(["chain", 0, rng.randrange(30), nv, step, rng.choice([[], list(range(nv))[::-1], rng.sample(range(nv), nv)]), [[rng.randrange(6), rng.randrange(30)] for _ in range(rng.choice([0, 0, 1, 2]))]])
            # aim the duplicate filter at the chain: connection threshold = step, solution criterion off or on
            ops.append(["filter", len([o for o in ops if o[0] in ("make", "dup", "chain")]) - 1, {"name": "remove_duplicates", "args": [step, rng.choice([None, 0, 1])], "kwargs": {}}])
        if rng.random() < 0.15:
            ops.append(["narrow", 0])
            if rng.random() < 0.5:
                ops.append(["concat", 0, -1])  # the generated dataset followed by its own read-back twin
                ops.append(["filter", -1, rng.choice([{"name": "remove_duplicates_fast", "args": [], "kwargs": {}}, {"name": "remove_duplicates", "args": [0, 0], "kwargs": {}}])])
        if rng.random() < 0.10:
            g = rng.choice([65, 72, 100, 128, 128, 130])
            dt = "int64" if g > 128 else rng.choice(["int8", "int8", "int64"])
            segs = []
            for _ in range(rng.randint(3, 9)):
                if rng.random() < 0.6:  # far-apart endpoints: distances around the int8 boundary
                    a, b = rng.randint(g // 2, g - 1), rng.randint(g // 2, g - 1)
                    segs.append([rng.randrange(3), rng.randrange(3), a, b])
                else:
                    segs.append([rng.randrange(g), rng.randrange(g), rng.randint(0, g - 1), rng.randint(0, g - 1)])
            ops.append(["line", g, segs, dt])
        if rng.random() < 0.10:
            g = rng.choice([2, 2, 3, 4])
            n_ring = 4 * (g - 1)
            picks = []
            for _ in range(rng.randint(3, 8)):
                a = rng.randrange(n_ring)
                b = (a + n_ring // 2) % n_ring if rng.random() < 0.6 else rng.randrange(n_ring)
                picks.append([a, b, rng.random() < 0.5])
                if rng.random() < 0.5:
                    picks.append([a, b, not picks[-1][2]])  # same endpoints, the other way round the ring
                if rng.random() < 0.3:
                    picks.append(list(picks[-1]))  # and an exact duplicate
            ops.append(["ring", g, picks])
            ops.append(["filter", -1, rng.choice([{"name": "remove_duplicates_fast", "args": [], "kwargs": {}}, {"name": "remove_duplicates", "args": [0, 0], "kwargs": {}}, {"name": "remove_duplicates", "args": [], "kwargs": {}}])])
        for _ in range(rng.randint(30, 50) if rng.random() < 0.03 else rng.randint(3, 9)):  # a few long histories
            r = rng.random()
            if r < 0.12 and ops[-1][0] == "filter" and ops[-1][2]["name"] != "collect_generation_meta":
                # the same filter with the same arguments again, on the result of the previous application
                ops.append(["filter", -1, dict(ops[-1][2])])
                if rng.random() < 0.5:
                    ops.append(["config_chain", -1, cfg["n_mazes"]])
            elif r < 0.20 and ops[-1][0] == "filter" and ops[-1][2]["name"] != "collect_generation_meta" and "sym" not in ops[-1][2]:
                # the very same application (same source object, same filter, same arguments) once more, optionally with the
                # documented in-place metadata collection on the source in between: the second result is a new dataset that
                # reflects the source as it is then
                if rng.random() < 0.5:
                    ops.append(["filter", ops[-1][1], {"name": "collect_generation_meta", "args": [], "kwargs": {}}])
                    ops.append(["filter", ops[-2][1], json.loads(json.dumps(ops[-2][2]))])
                else:
                    ops.append(["filter", ops[-1][1], json.loads(json.dumps(ops[-1][2]))])
            elif r < 0.88:
                ops.append(["filter", rng.randrange(8), rand_filter(rng)])
            else:
                ops.append(["config_chain", rng.randrange(8), cfg["n_mazes"]])
        specs.append({"seed": rng.getrandbits(48), "ops": ops, "slot": len(specs) % 3})
    return specs


OPTIMIZE_SLOTS = {"quick": [2], "thorough": [2]}  # one interpreter slot in three runs under `python -O` (asserts stripped)


def shrink(spec: dict, result: dict):
    ops = spec["ops"]
    n = len(ops)
    for i in range(n - 1, -1, -1):
        if ops[i][0] != "make" or sum(1 for o in ops if o[0] == "make") > 1:
            yield dict(spec, ops=ops[:i] + ops[i + 1 :])
    mi = next((i for i, o in enumerate(ops) if o[0] == "make"), None)
    c = ops[mi][1] if mi is not None else None
    if c:
        for fld, val in (("n_mazes", max(1, c["n_mazes"] // 2)), ("n_mazes", c["n_mazes"] - 1), ("grid_n", max(2, c["grid_n"] - 1)), ("maze_ctor", "gen_dfs")):
            if c.get(fld) != val and val:
                c2 = dict(c, **{fld: val})
                if fld == "maze_ctor":
                    c2["maze_ctor_kwargs"] = {}
                yield dict(spec, ops=ops[:mi] + [["make", c2]] + ops[mi + 1 :])


def sample_of(spec, result):
    return {"ops": [op if op[0] != "make" else ["make", {k: op[1][k] for k in ("grid_n", "n_mazes", "maze_ctor", "seed")}] for op in spec["ops"]], "digest": result.get("digest")}
