"""Shared workload for C01 / C12 / C19: one run = one generator call under the S-RNG seam."""

from __future__ import annotations

import random

import numpy as np

from mdsim.core import EventLog
from mdsim.seams.rng import DrawBudgetExceeded, SimRNG, seed_real

GENS = ["gen_dfs", "gen_prim", "gen_wilson", "gen_percolation", "gen_dfs_percolation"]


def gen_kwargs(rng: random.Random, gen: str, r: int, c: int, constrained_bias: float) -> dict:
    """kwargs drawn from the accepted space of each generator (JSON-native values only)"""
    kw: dict = {}
    total = r * c
    if rng.random() > constrained_bias:
        # default arguments (the spanning-tree clause of C01)
        if gen in ("gen_percolation", "gen_dfs_percolation") and rng.random() < 0.7:
            kw["p"] = rng.choice([0.0, 1.0, 0.5, 0.4, round(rng.random(), 3)])
        return kw
    if gen in ("gen_dfs", "gen_prim", "gen_dfs_percolation"):
        if rng.random() < 0.6:
            if gen == "gen_dfs_percolation" or rng.random() < 0.6:
                kw["accessible_cells"] = rng.choice([0, 1, 2, max(0, total - 1), total, total + 3, rng.randint(0, total + 2)])
            else:
                # (two-decimal proportions whose product with small cell counts is an integer in exact arithmetic but falls just
                # above or below it in binary floating point: 0.55 * 20, 0.07 * 100, 0.29 * 100, 0.35 * 20 ...)
                kw["accessible_cells"] = rng.choice([0.0, 1.0, 0.5, round(rng.random(), 3), rng.choice([0.55, 0.35, 0.15, 0.07, 0.28, 0.29, 0.57, 0.1, 0.3, 0.7])])
        if rng.random() < 0.4:
            if gen == "gen_dfs_percolation" or rng.random() < 0.6:
                kw["max_tree_depth"] = rng.choice([0, 1, 2, 3, r + c, 2 * total, rng.randint(0, 2 * total + 2)])
            else:
                kw["max_tree_depth"] = rng.choice([0.0, 1.0, 0.5, round(rng.random(), 3)])
        if gen in ("gen_dfs", "gen_prim") and rng.random() < 0.3:
            kw["do_forks"] = rng.random() < 0.3
        if gen == "gen_dfs" and rng.random() < 0.3:
            kw["randomized_stack"] = rng.random() < 0.6
    if gen in ("gen_percolation", "gen_dfs_percolation"):
        if rng.random() < 0.8:
            kw["p"] = rng.choice([0.0, 1.0, 0.5, 0.4, 0.1, 0.9, round(rng.random(), 3)])
    if gen != "gen_wilson" and rng.random() < 0.5:
        # corners and the last row/column, which the library's own random start never picks
        kw["start_coord"] = rng.choice(
            [[0, 0], [r - 1, c - 1], [r - 1, 0], [0, c - 1], [rng.randrange(r), c - 1], [r - 1, rng.randrange(c)], [rng.randrange(r), rng.randrange(c)]]
        )
    return kw


def arg_repr(rng: random.Random, gen: str, r: int, c: int, kw: dict) -> dict:
    """How the caller spells the same legal arguments: the grid shape as an array of another integer type (the annotation
    `Coord` asks for int8) or as a list/tuple where the generator converts it, the start cell as a caller-owned array that the
    caller overwrites after the call (the finished maze must not alias the caller's buffers)."""
    out: dict = {}
    many_cells = r * c >= 128  # where a product computed in a narrow type would wrap
    if rng.random() < (0.6 if many_cells else 0.25):
        choices = ["int32", "int16"] + (["int8", "int8"] if max(r, c) <= 127 else []) + (["uint8"] if max(r, c) <= 255 else [])
        if many_cells:
            choices = [x for x in choices if x in ("int8", "uint8")] * 3 + choices
        if gen != "gen_wilson":  # gen_wilson uses the shape as it is given (array arithmetic): arrays only
            choices += ["list", "tuple"]
        # one array owned by the caller and rewritten in place for every grid it asks for (the runs of a batch share a process)
        choices += ["shared-int64"] * max(2, len(choices) // 3)
        out["shape_repr"] = rng.choice(choices)
    if "start_coord" in kw and rng.random() < (0.8 if max(r, c) > 128 else 0.3):
        out["start_repr"] = rng.choice(["int64-buffer", "int8-buffer", "int8-buffer", "tuple"])
    return out


_SHARED_SHAPE = np.zeros(2, dtype=np.int64)


def _shape_arg(spec):
    r, c = spec["shape"]
    rep = spec.get("shape_repr")
    if rep == "shared-int64":
        _SHARED_SHAPE[:] = (r, c)
        return _SHARED_SHAPE
    if rep in (None, "int64"):
        return np.array([r, c])
    if rep == "list":
        return [r, c]
    if rep == "tuple":
        return (r, c)
    return np.array([r, c], dtype=getattr(np, rep))


LONG_SIDES = [126, 127, 128, 129, 130, 131, 200, 255, 256, 257, 300]


def gen_spec(rng: random.Random, seed: int, max_n: int, constrained_bias: float, gens=GENS, big: bool = False, long: bool = False) -> dict:
    gen = rng.choice(gens)
    if long:
        # long thin grids whose side crosses the ranges of the narrow integer types used for coordinates (int8 / uint8)
        if gen == "gen_wilson":
            r, c = rng.choice([1, 2]), rng.choice([127, 128, 129, 130])
        else:
            r, c = rng.choice([1, 2, 3]), rng.choice(LONG_SIDES)
        if rng.random() < 0.5:
            r, c = c, r
        kw = gen_kwargs(rng, gen, r, c, constrained_bias)
        if gen != "gen_wilson" and rng.random() < 0.5:
            # an explicit start cell that a narrow integer type can still hold, on a grid that reaches beyond it
            kw["start_coord"] = [rng.randrange(min(r, 128)), rng.randrange(min(c, 128))]
        spec = {"seed": seed, "gen": gen, "shape": [r, c], "kwargs": kw, "mode": "real" if gen == "gen_wilson" or rng.random() < 0.6 else "owned"}
        spec.update(arg_repr(rng, gen, r, c, kw))
        return spec
    if big:
        r = c = rng.choice([16, 20])
        if rng.random() < 0.5:
            r = rng.randint(8, 20)
    else:
        r = rng.randint(1, max_n)
        c = rng.randint(1, max_n) if rng.random() < 0.6 else r
    kw = gen_kwargs(rng, gen, r, c, constrained_bias)
    mode = "owned" if rng.random() < 0.5 else "real"
    spec = {"seed": seed, "gen": gen, "shape": [r, c], "kwargs": kw, "mode": mode}
    spec.update(arg_repr(rng, gen, r, c, kw))
    return spec


class GenOutcome:
    def __init__(self):
        self.maze = None
        self.exc: BaseException | None = None
        self.sim: SimRNG | None = None
        self.budget_exceeded = False
        self.extra = None
        self.extra_exc: BaseException | None = None


def execute(spec: dict, log: EventLog, extra=None) -> GenOutcome:
    """run the generator named in spec under the chosen RNG mode. `extra(maze)` runs under the same seam."""
    from maze_dataset.generation.generators import GENERATORS_MAP

    out = GenOutcome()
    gen = spec["gen"]
    r, c = spec["shape"]
    kw = dict(spec["kwargs"])
    log.add("spec", gen, [r, c], kw, spec["mode"])
    specials = [kw["p"]] if "p" in kw else [0.4]
    is_dfs = gen in ("gen_dfs", "gen_prim", "gen_dfs_percolation")
    hard = (40 * r * c + 200) if (is_dfs or gen == "gen_percolation") else 400000
    seed_real(spec["seed"])  # un-intercepted entry points stay deterministic in every mode
    if spec["mode"] == "real":
        sim = None
        cm = _Null()
    else:
        sim = SimRNG(
            spec["seed"],
            mode="scripted" if spec["mode"] == "scripted" else "owned",
            script=spec.get("script"),
            special_floats=specials,
            hard_budget=hard,
            force_policy=spec.get("force_policy"),
        )
        cm = sim
    out.sim = sim
    shape_arg = _shape_arg(spec)
    buf = None
    if "start_coord" in kw and spec.get("start_repr"):
        if spec["start_repr"] == "tuple":
            kw["start_coord"] = tuple(kw["start_coord"])
        else:
            buf = np.array(kw["start_coord"], dtype=np.int8 if spec["start_repr"] == "int8-buffer" and max(kw["start_coord"]) <= 127 else np.int64)
            kw["start_coord"] = buf
    with cm:
        try:
            out.maze = GENERATORS_MAP[gen](shape_arg, **kw)
            # the caller re-uses its own buffers afterwards (next start cell, next grid): the returned maze and its metadata
            # must not change with them
            if buf is not None:
                buf[:] = [(int(buf[0]) + 1) % max(r, 1), (int(buf[1]) + 1) % max(c, 1)]
            if isinstance(shape_arg, np.ndarray):
                shape_arg[:] = 1
        except DrawBudgetExceeded:
            out.budget_exceeded = True
        except Exception as e:  # noqa: BLE001 - classified by the oracle
            out.exc = e
        if extra is not None and out.maze is not None:
            try:
                out.extra = extra(out.maze)
            except DrawBudgetExceeded:
                out.budget_exceeded = True
            except Exception as e:  # noqa: BLE001
                out.extra_exc = e
    if sim is not None:
        log.add("draws", len(sim.draws), sim.stats())
    return out


class _Null:
    def __enter__(self):
        return self

    def __exit__(self, *a):
        return False


def run_batch(batch: list, run_one) -> list:
    """The runs of a batch execute one after the other in ONE process, so whatever module-level state the library keeps
    carries over from run to run: a hidden history.  A violating run is therefore reported together with the runs that
    preceded it in its process (`history`); the minimiser first tries the run alone, then bisects the history."""
    results = []
    for j, s in enumerate(batch):
        r = run_one(s)
        if isinstance(r, dict) and r.get("status") == "violation":
            r["spec"] = dict(s, history=[{k: v for k, v in h.items() if k != "history"} for h in batch[:j]])
        results.append(r)
    return results


def run_history_prefix(spec: dict, log: EventLog, extra_for=None):
    "execute the generator calls that preceded this run in its process (outcomes are irrelevant, only their side effects)"
    hist = spec.get("history") or []
    for h in hist:
        try:
            execute(h, EventLog(), extra=extra_for(h) if extra_for is not None else None)
        except BaseException:  # noqa: BLE001 - a failing predecessor is still a predecessor
            pass
    if hist:
        log.add("history", len(hist))


def shrink_candidates(spec: dict, result: dict):
    """simpler specs first: no / shorter process history, smaller grid, fewer kwargs, then scripted replay of the recorded
    draws with spans removed / zeroed"""
    hist = spec.get("history") or []
    if hist:
        yield dict(spec, history=[])
        span = len(hist) // 2
        while span >= 1:
            for start in range(0, len(hist), span):
                cand = hist[:start] + hist[start + span :]
                if len(cand) < len(hist):
                    yield dict(spec, history=cand)
            span //= 2
    r, c = spec["shape"]
    for rr, cc in ((r - 1, c), (r, c - 1), (r - 1, c - 1), (max(1, r // 2), max(1, c // 2))):
        if rr >= 1 and cc >= 1 and (rr, cc) != (r, c):
            s = dict(spec, shape=[rr, cc])
            kw = dict(spec["kwargs"])
            if "start_coord" in kw:
                kw["start_coord"] = [min(kw["start_coord"][0], rr - 1), min(kw["start_coord"][1], cc - 1)]
            s["kwargs"] = kw
            s.pop("script", None)
            if s["mode"] == "scripted":
                s["mode"] = "owned"
            yield s
    for k in list(spec["kwargs"]):
        kw = dict(spec["kwargs"])
        del kw[k]
        yield dict(spec, kwargs=kw)
    for k in ("shape_repr", "start_repr"):
        if k in spec:
            yield {kk: vv for kk, vv in spec.items() if kk != k}
    draws = result.get("draws")
    if spec["mode"] in ("owned", "scripted") and draws:
        n = len(draws)
        if spec["mode"] == "owned":
            yield dict(spec, mode="scripted", script=draws)
        span = n // 2
        while span >= 1:
            for start in range(0, n, span):
                cand = draws[:start] + draws[start + span :]
                if len(cand) < n:
                    yield dict(spec, mode="scripted", script=cand)
            span //= 2
        for i, d in enumerate(draws):
            if isinstance(d, int) and d != 0:
                cand = list(draws)
                cand[i] = 0
                yield dict(spec, mode="scripted", script=cand)
