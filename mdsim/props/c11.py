"""C11 — the on-disk dataset cache never serves wrong data, whatever happened to the file (DESIGN §3 C11).

Every simulated process lifetime (golden generation, request, independent read-back) is a pristine stage child;
the archive file goes through the S-DISK seam, the clock through S-CLOCK (byte-identical archives => crash
offsets are a function of the seed).  Per configuration the crash points / torn writes of the recorded write
trace are enumerated completely; truncations, flips, zeroed blocks, lost writes, foreign archives and multi-fault
histories are enumerated (thorough) or strided/sampled by seed (quick).
"""

from __future__ import annotations

import hashlib
import io
import os
import random
import shutil
import zipfile

from mdsim import core
from mdsim.props import _ds
from mdsim.seams import disk as sdisk
from mdsim.seams import mem as smem

PROP = "C11"
LEVEL = "fault_enumeration"
TECHNIQUE = "deterministic simulation with fault injection at the storage seam (crash/torn/lost writes, truncation, corruption, foreign files, I/O errors) + cache reference model"
RUNS = {"quick": 6, "thorough": 14}  # number of request configurations (thorough: every byte of each is truncated and flipped)
JOB_TIMEOUT = 900.0
CHUNK = {"quick": 36, "thorough": 120}
OPTIMIZE_SLOTS = {"quick": [2], "thorough": [2]}  # every third configuration is served by an interpreter running under `python -O`
COMPONENTS = {
    "real": ["MazeDataset.from_config / read / save", "MazeDataset.generate + filters", "zanj.ZANJ.save/read, LoadedZANJ", "stdlib zipfile (deflate, CRC, headers)", "real scratch filesystem for path/exists logic"],
    "stub": ["archive file object (FaultyFile behind zanj's zipfile namespace)", "time.time/localtime seen by zanj and zipfile (SimClock)", "contents of np.empty() memory in the dataset serialiser (seed-derived pattern)"],
}
RULE = (
    "one evaluation = one scenario: (request configuration, knobs, one fault or a multi-fault history) -> request in a pristine process "
    "-> independent read-back in another; distinct = distinct (configuration, post-fault file image sha1, plan) ; non-trivial = a fault "
    "actually fired or a damaged/foreign image was placed"
)
LEVEL_TEXT = (
    "Fault enumeration at the storage seam: per sampled configuration every crash point and torn write of the real writer's recorded trace is enumerated, every byte offset of archives up to 12000 bytes and a 12000-offset sweep plus all boundaries beyond (thorough) or a dense stride plus all member/header boundaries (quick) is truncated/flipped, blocks are zeroed, un-synced writes are lost, foreign archives differing in exactly one field are placed under the requested name, and seeded multi-fault histories end with two fault-free requests (bounded liveness). Outcomes are judged by a cache reference model. Configurations, lost-write subsets and histories are sampled by seed. Beyond single files: one-field neighbours of the request use the same cache directory alternately (separate processes, one process, one re-assigned configuration object, a neighbour with the survivor count, a 1000/1024-maze pair), and one process keeps requesting while the file is damaged under it or while it edits the dataset it was handed. Every configuration is pinned to an interpreter slot, one slot in three runs under python -O.",
    "Trusted: stdlib zipfile as the (real) reader/writer; the crash model (post-crash image = prefix/subset of the Python-level write log, holes read as zeros); SimClock pins the archive bytes; concurrent writers are out of scope (DESIGN C11).",
)


# ------------------------------------------------------------------------------------------------
# stages (each runs in its own pristine process)
# ------------------------------------------------------------------------------------------------
def _knobs(knobs):
    from maze_dataset.dataset import maze_dataset as mdm

    mdm.set_serialize_minimal_threshold(knobs.get("threshold", 100))


def _zanj(knobs):
    from zanj import ZANJ

    z = knobs.get("zanj") or {}
    return ZANJ(external_array_threshold=z.get("external_array_threshold", 256), compress=z.get("compress", True))


def _clock(knobs):
    c = knobs.get("clock") or {"t0": 1.7e9, "steps": [0.0]}
    return sdisk.SimClock(c["t0"], c["steps"])


def st_golden(cfgspec, knobs):
    from maze_dataset import MazeDataset

    _knobs(knobs)
    return _ds.outcome_of(lambda: MazeDataset.from_config(_ds.make_cfg(cfgspec), load_local=False, save_local=False))


def st_request(cfgspec, knobs, base_dir, plan, record, extra=None):
    from maze_dataset import MazeDataset

    flags = dict(knobs.get("request") or {})  # per-configuration request options (the statement's observe_at passes do_download=False)
    flags.update(extra or {})

    _knobs(knobs)
    dk = sdisk.SimDisk(plan, record_data=record)
    with sdisk.Installed(dk, _clock(knobs)), smem.Installed(knobs.get("mem", 0)):
        try:
            cfg = _ds.make_cfg(cfgspec)
            out = _ds.outcome_of(lambda: MazeDataset.from_config(cfg, local_base_path=base_dir, zanj=_zanj(knobs), **flags))
        except sdisk.SimCrash:
            out = {"kind": "crashed"}
        dk.finalize()
    out["fired"] = dk.fired
    out["write_sessions"] = len(dk.sessions)
    out["session_paths"] = [os.path.basename(x.path) for x in dk.sessions]
    out["read_sessions"] = len(dk.read_sessions)
    if record and dk.sessions:
        out["writes"] = [[o, d.hex()] for o, d in dk.sessions[0].writes]
    out["files"] = sorted(os.listdir(base_dir)) if os.path.isdir(base_dir) else None
    return out


def st_request_seq(cfgspecs, knobs, base_dir, reuse_object=False):
    """several fault-free requests in ONE process lifetime (no restart in between): in-process state carries over.
    With `reuse_object` the caller keeps ONE configuration object and only re-assigns its maze count between requests
    (instead of building a new object per request) whenever consecutive configurations differ in nothing else."""
    from maze_dataset import MazeDataset

    flags = dict(knobs.get("request") or {})
    _knobs(knobs)
    outs = []
    dk = sdisk.SimDisk(None)
    prev_spec = None
    cfg = None
    with sdisk.Installed(dk, _clock(knobs)), smem.Installed(knobs.get("mem", 0)):
        last = None
        for cs in cfgspecs:
            bd = base_dir
            if isinstance(cs, list) and cs and cs[0] == "damage":
                # the file under the cache name is damaged while the process lives on
                fns = sorted(os.listdir(base_dir)) if os.path.isdir(base_dir) else []
                if fns:
                    pth = os.path.join(base_dir, fns[0])
                    with open(pth, "rb") as f:
                        b = bytearray(f.read())
                    a = cs[1]
                    if b:
                        if a["kind"] == "trunc":
                            b = b[: a["at"] % len(b)]
                        else:
                            b[a["at"] % len(b)] ^= a["mask"]
                    with open(pth, "wb") as f:
                        f.write(bytes(b))
                    outs.append({"kind": "damaged", "image": bytes(b).hex()})
                else:
                    outs.append({"kind": "damaged", "image": None})
                continue
            if isinstance(cs, list) and cs and cs[0] == "mutate-last":
                # the caller edits the dataset it was handed (its own object): later requests must not see the edit
                if last is not None and len(last.mazes) > 0:
                    last.mazes.pop()
                    last.update_self_config()
                outs.append({"kind": "mutated"})
                continue
            if isinstance(cs, list):  # [cfgspec, directory]
                cs, bd = cs
            if reuse_object and cfg is not None and prev_spec is not None and {k: v for k, v in cs.items() if k != "n_mazes"} == {k: v for k, v in prev_spec.items() if k != "n_mazes"}:
                cfg.n_mazes = cs["n_mazes"]
            else:
                cfg = _ds.make_cfg(cs)
            prev_spec = cs
            holder = {}

            def _req():
                holder["ds"] = MazeDataset.from_config(cfg, local_base_path=bd, zanj=_zanj(knobs), **flags)
                return holder["ds"]

            out = _ds.outcome_of(_req)
            last = holder.get("ds")
            out["files"] = sorted(os.listdir(bd)) if os.path.isdir(bd) else None
            outs.append(out)
        dk.finalize()
    return outs


def st_readback(path):
    from maze_dataset import MazeDataset

    return _ds.outcome_of(lambda: MazeDataset.read(path))


def st_make_other(kind, knobs, base_dir):
    "foreign archives that are not MazeDatasets"
    import numpy as np
    from zanj import ZANJ

    _knobs(knobs)
    os.makedirs(base_dir, exist_ok=True)
    p = os.path.join(base_dir, "other.zanj")
    dk = sdisk.SimDisk(None)
    with sdisk.Installed(dk, _clock(knobs)), smem.Installed(knobs.get("mem", 0)):  # clock/memory seams: the foreign archive's bytes are a function of the seed too
        if kind == "foreign-object":
            ZANJ().save({"hello": "world", "arr": np.arange(300)}, p)
        else:
            from maze_dataset import MazeDataset, MazeDatasetCollection, MazeDatasetCollectionConfig

            cfgs = [_ds.make_cfg({"name": "m%d" % i, "grid_n": 2 + i, "n_mazes": 2, "maze_ctor": "gen_dfs", "seed": 42}) for i in range(2)]
            ccfg = MazeDatasetCollectionConfig(name="coll", maze_dataset_configs=cfgs)
            coll = MazeDatasetCollection.from_config(ccfg, load_local=False, save_local=False)
            coll.save(p)
        dk.finalize()
    return {"path": p}


# ------------------------------------------------------------------------------------------------
# the driver (harness code only; never touches library state before forking stages)
# ------------------------------------------------------------------------------------------------
class Base:
    "per-(cfg, knobs) shared context: golden dataset, recorded write trace, good image"

    def __init__(self, cfgspec, knobs, scratch, tag):
        self.cfg = cfgspec
        self.knobs = knobs
        self.dir = os.path.join(scratch, tag)
        os.makedirs(self.dir, exist_ok=True)
        self.rkey = _ds.spec_key(cfgspec)
        self.not_judged = None
        self.base_violation = None
        self.n = 0
        g = core.stage(st_golden, cfgspec, knobs)
        if g["kind"] != "returned":
            self.not_judged = "golden-raised:" + g.get("exc", "?")
            return
        self.fresh = g["model"]
        d0 = os.path.join(self.dir, "d0")
        os.makedirs(d0)
        w = core.stage(st_request, cfgspec, knobs, d0, None, True)
        v = self._judge_simple(w, None, d0, "miss")
        if v:
            self.base_violation = v
            return
        self.fname = w["files"][0]
        # does the writer write to the final path itself (as the pinned tree does), or through a temporary file it renames?
        self.writer_in_place = bool(w.get("session_paths")) and w["session_paths"][0] == self.fname
        with open(os.path.join(d0, self.fname), "rb") as f:
            self.good = f.read()
        self.writes = [(o, bytes.fromhex(h)) for o, h in w["writes"]]
        if sdisk.apply_writes(self.writes) != self.good:
            raise RuntimeError("harness: recorded write log does not reproduce the saved file")
        # control: second request on the intact own file (cache hit, or the conformant mismatch raise of DESIGN 6.2)
        h = core.stage(st_request, cfgspec, knobs, d0, None, False)
        v = self.judge(h, self.good, d0)
        self.control = h["kind"]
        if v:
            self.base_violation = v

    # ---- oracle ------------------------------------------------------------------------------------
    def _cfg_ok(self, model) -> bool:
        k = dict(model["cfg"])
        k.pop("n_mazes", None)
        return _ds.key_relation(k, self.rkey) in ("equal", "equal+cgm")

    def _judge_simple(self, out, F, d, what):
        "fast path: the request returned fresh(R) and left a loadable file holding exactly that"
        if out["kind"] == "returned" and out["model"]["mazes"] == self.fresh["mazes"] and self._cfg_ok(out["model"]) and out["model"]["class"] == "MazeDataset":
            files = out.get("files") or []
            name = getattr(self, "fname", None)
            target = name if name in files else (files[0] if len(files) == 1 else None)
            if target is None:
                return ("C11.leaves-loadable-file", f"after a successful request the cache directory holds {files}" + (f", nothing under the cache name {name}" if name else ""))
            rb = core.stage(st_readback, os.path.join(d, target))
            if rb["kind"] != "returned":
                return ("C11.leaves-loadable-file", f"[{what}] request returned but the file left behind does not load: {rb.get('exc')}: {rb.get('msg', '')[:160]}")
            if rb["model"]["mazes"] != self.fresh["mazes"]:
                return ("C11.leaves-loadable-file", f"[{what}] file left behind holds different mazes than the dataset returned")
            return None
        if F is None:
            return ("C11.returns-fresh-when-absent" if what in ("miss", "missing", "missing-dir") else "C11.returns-fresh-after-damage", f"[{what}] no usable cache file, request outcome: {self._describe(out)}")
        return "classify"

    def judge(self, out, F: bytes | None, d: str, what: str = "hit", allow_oserror: bool = False):
        """cache model. F = bytes of the file under R's name before the request (None = absent)."""
        if out["kind"] == "crashed":
            return ("C11.unexpected-crash", f"[{what}] simulated crash fired in a fault-free request")
        v = self._judge_simple(out, F, d, what)
        if v != "classify":
            return v
        if allow_oserror and out["kind"] == "raised" and out.get("oserror"):
            return None
        # classify F by what it *is*: read it independently
        self.n += 1
        cd = os.path.join(self.dir, "classify%d" % self.n)
        os.makedirs(cd)
        p = os.path.join(cd, "f.zanj")
        with open(p, "wb") as f:
            f.write(F)
        c = core.stage(st_readback, p)
        shutil.rmtree(cd, ignore_errors=True)
        if c["kind"] == "returned-other":
            c = {"kind": "returned", "model": {"class": c.get("type"), "cfg": {}, "mazes": None}}  # a valid archive of something else
        if c["kind"] != "returned":
            return ("C11.returns-fresh-after-damage", f"[{what}] cache file is unreadable ({c.get('exc', c['kind'])}), request outcome: {self._describe(out)}")
        stored = c["model"]
        if stored.get("class") != "MazeDataset":
            rel = "different"
        else:
            sk = dict(stored["cfg"])
            sk.pop("n_mazes", None)
            rel = _ds.key_relation(sk, self.rkey)
        if out["kind"] == "returned":
            if rel in ("equal", "equal+cgm") and out["model"]["mazes"] == stored["mazes"] and self._cfg_ok(out["model"]):
                return None  # served the stored dataset of a matching configuration
            if rel == "different":
                return ("C11.served-mismatched-config", f"[{what}] stored configuration differs from the request, yet a dataset was returned (neither an error nor fresh data): stored={_short(stored['cfg'])}")
            return ("C11.wrong-data", f"[{what}] returned dataset equals neither the stored nor a fresh one: {self._describe(out)}")
        if out["kind"] == "returned-other":
            return ("C11.served-mismatched-config", f"[{what}] returned a {out.get('type')} for a dataset request")
        # raised
        if rel == "equal":
            return ("C11.valid-cache-raises", f"[{what}] stored configuration matches the request (up to the maze count) but the request raised {out.get('exc')}: {out.get('msg', '')[:200]}")
        return None  # mismatch (or the documented collect_generation_meta difference) -> raising conforms

    def _describe(self, out):
        if out["kind"] == "returned":
            same = out["model"]["mazes"] == self.fresh["mazes"]
            return f"returned {len(out['model']['mazes'])} mazes (equal to fresh: {same}, cfg ok: {self._cfg_ok(out['model'])})"
        return f"{out['kind']} {out.get('exc', '')}: {out.get('msg', '')[:200]}"

    # ---- image construction ----------------------------------------------------------------------------
    def image_for(self, sc) -> bytes | None:
        k = sc["kind"]
        W = self.writes
        if k == "crash":
            return None if sc["event"] == -1 else sdisk.apply_writes(W, upto=sc["event"])
        if k == "torn":
            return sdisk.apply_writes(W, upto=sc["event"], torn=(sc["event"], sc["bytes"]))
        if k == "lost":
            lost = set(sc["lost"])
            return sdisk.apply_writes(W, keep={i for i in range(len(W)) if i not in lost})
        if k == "trunc":
            return self.good[: sc["at"]]
        if k == "flip":
            b = bytearray(self.good)
            b[sc["at"]] ^= sc["mask"]
            return bytes(b)
        if k == "zero":
            b = bytearray(self.good)
            b[sc["from"] : sc["to"]] = b"\0" * (sc["to"] - sc["from"])
            return bytes(b)
        if k == "empty":
            return b""
        raise KeyError(k)


def _short(cfgk):
    return {k: cfgk[k] for k in ("name", "grid_n", "n_mazes", "maze_ctor", "seed") if k in cfgk}


def run_scenario(base: Base, sc: dict, idx: int) -> dict:
    log = core.EventLog()
    stats: dict = {"kind_" + sc["kind"]: 1}
    d = os.path.join(base.dir, "s%d" % idx)
    kind = sc["kind"]
    log.add("scenario", sc)
    try:
        if kind in ("crash", "torn") and sc["event"] >= 0:
            # the interruption is EXECUTED: a real request in an empty directory whose save dies at this write (SimCrash inside
            # write(), file objects dead, no destructor runs); what the next request finds is whatever that process left behind -
            # also when the writer goes through a temporary file
            os.makedirs(d)
            plan = {"kind": kind, "event": sc["event"], "bytes": sc.get("bytes", 0)}
            core.stage(st_request, base.cfg, base.knobs, d, plan, False)
            left = sorted(os.listdir(d))
            F = None
            if base.fname in left:
                with open(os.path.join(d, base.fname), "rb") as f:
                    F = f.read()
            if base.writer_in_place:
                exp = base.image_for(sc)
                if left not in ([base.fname], []) or F != exp:
                    raise RuntimeError(f"harness: executed crash left {left} / another image than the write-log model for {plan}")
                stats["probe_executed_crash_equals_log_model"] = 1
            else:
                stats["writer_uses_temporary_file"] = 1
            stats["leftover_files_after_crash_%d" % len(left)] = 1
        elif kind in ("crash", "torn", "lost", "trunc", "flip", "zero", "empty"):
            F = base.image_for(sc)
            os.makedirs(d)
            if F is not None:
                with open(os.path.join(d, base.fname), "wb") as f:
                    f.write(F)
        if kind in ("crash", "torn", "lost", "trunc", "flip", "zero", "empty"):
            log.add("image", hashlib.sha1(F).hexdigest() if F is not None else None)
            out = core.stage(st_request, base.cfg, base.knobs, d, None, False)
            v = base.judge(out, F, d, kind)
            if kind in ("crash", "torn", "lost"):
                stats["fired_" + kind] = 1
                _probes(base, sc, stats)
        elif kind == "missing":
            os.makedirs(d)
            out = core.stage(st_request, base.cfg, base.knobs, d, None, False)
            v = base.judge(out, None, d, kind)
        elif kind == "missing-dir":
            out = core.stage(st_request, base.cfg, base.knobs, os.path.join(d, "a", "b"), None, False)
            v = base.judge(out, None, os.path.join(d, "a", "b"), kind)
        elif kind == "foreign":
            ds_ = os.path.join(d, "src")
            os.makedirs(ds_)
            mk = core.stage(st_request, sc["cfg"], base.knobs, ds_, None, False)
            if mk["kind"] != "returned" or not mk.get("files"):
                return core.ok(log, stats={"not_judged_foreign-generation-failed": 1}, nontrivial=None)
            with open(os.path.join(ds_, mk["files"][0]), "rb") as f:
                F = f.read()
            dd = os.path.join(d, "dst")
            os.makedirs(dd)
            with open(os.path.join(dd, base.fname), "wb") as f:
                f.write(F)
            log.add("image", hashlib.sha1(F).hexdigest())
            out = core.stage(st_request, base.cfg, base.knobs, dd, None, False)
            v = base.judge(out, F, dd, "foreign:" + sc.get("field", "?"))
            stats["foreign_" + sc.get("field", "?")] = 1
        elif kind in ("foreign-object", "foreign-collection"):
            mk = core.stage(st_make_other, kind, base.knobs, os.path.join(d, "src"))
            with open(mk["path"], "rb") as f:
                F = f.read()
            dd = os.path.join(d, "dst")
            os.makedirs(dd)
            with open(os.path.join(dd, base.fname), "wb") as f:
                f.write(F)
            log.add("image", hashlib.sha1(F).hexdigest())
            out = core.stage(st_request, base.cfg, base.knobs, dd, None, False)
            v = base.judge(out, F, dd, kind)
        elif kind == "shared-dir":
            return run_shared_dir(base, sc, d, log, stats)
        elif kind == "warm-history":
            return run_warm_history(base, sc, d, log, stats)
        elif kind == "history":
            return run_history(base, sc, d, log, stats)
        else:
            raise KeyError(kind)
    finally:
        shutil.rmtree(d, ignore_errors=True)
    log.add("outcome", out["kind"], out.get("exc"), out.get("write_sessions"))
    stats["outcome_" + _outcome_class(out)] = 1
    if v:
        return core.violation(v[0], v[1], log, stats=stats)
    return core.ok(log, stats=stats, nontrivial=log.digest())


def _outcome_class(out):
    if out["kind"] == "returned":
        return "regenerated" if out.get("write_sessions") else "served-from-cache"
    if out["kind"] == "raised":
        return "raised"
    return out["kind"]


def _probes(base: Base, sc, stats):
    W = base.writes
    if sc["kind"] in ("crash", "torn") and 0 <= sc["event"] < len(W):
        k = sc["event"]
        ext = 0
        for o, dta in W[:k]:
            ext = max(ext, o + len(dta))
        if W[k][0] < ext:
            stats["probe_crash_between_member_data_and_header_patch"] = 1
        try:
            zf = zipfile.ZipFile(io.BytesIO(base.good))
            if W[k][0] >= zf.start_dir:
                stats["probe_crash_inside_central_directory"] = 1
        except Exception:  # noqa: BLE001
            pass
    if sc["kind"] == "lost":
        lost = set(sc["lost"])
        if (len(W) - 1) not in lost and any(i < len(W) - 3 for i in lost):
            stats["probe_eocd_complete_but_member_write_lost"] = 1


def run_warm_history(base: Base, sc, d, log, stats):
    """ONE process lifetime: request (generates and saves), request (served from the file), then either the file is damaged
    or the caller edits the dataset it was handed, then two more requests.  Whatever the library keeps in memory between
    requests must not stand in for the file: the request after the damage regenerates, returns fresh data and repairs the
    file; the request after the caller's edit returns the stored dataset, not the edited object."""
    os.makedirs(d)
    mid = ["damage", sc["damage"]] if sc.get("damage") else ["mutate-last"]
    outs = core.stage(st_request_seq, [base.cfg, base.cfg, mid, base.cfg, base.cfg], base.knobs, d)
    log.add("warm-history", mid, [o.get("kind") for o in outs])
    stats["warm_history_" + mid[0]] = 1
    F = None
    for i, o in enumerate(outs):
        if o["kind"] in ("damaged", "mutated"):
            if o["kind"] == "damaged" and o.get("image") is not None:
                F = bytes.fromhex(o["image"])
            continue
        what = f"[warm-history:{mid[0]}] request #{i + 1} in one process"
        if i == 3 and mid[0] == "damage":
            v = base.judge(o, F, d, what)
        else:
            # every other request: the own intact file (or none yet): fresh data, or the conformant raise of DESIGN 6.2
            if o["kind"] == "returned" and o["model"]["mazes"] != base.fresh["mazes"]:
                v = ("C11.wrong-data", f"{what} returned {len(o['model']['mazes'])} mazes that are not the dataset of the requested configuration ({len(base.fresh['mazes'])} mazes)" + (" - it reflects an edit the caller made to the object returned by an earlier request" if mid[0] == "mutate-last" and i >= 3 else ""))
            elif o["kind"] == "raised" and not (i >= 1 and base.control == "raised"):
                v = ("C11.valid-cache-raises", f"{what} raised {o.get('exc')}: {o.get('msg', '')[:160]}")
            else:
                v = None
        if v:
            return core.violation(v[0], v[1], log, stats=stats)
    # what is left behind must be loadable and hold the requested dataset
    files = sorted(os.listdir(d))
    if len(files) != 1:
        return core.violation("C11.leaves-loadable-file", f"[warm-history:{mid[0]}] the cache directory holds {files}", log, stats=stats)
    rb = core.stage(st_readback, os.path.join(d, files[0]))
    if rb["kind"] != "returned" or rb["model"]["mazes"] != base.fresh["mazes"]:
        return core.violation("C11.leaves-loadable-file", f"[warm-history:{mid[0]}] the file left behind after a process that kept requesting the configuration does not hold its dataset ({rb.get('exc', rb['kind'])})", log, stats=stats)
    shutil.rmtree(d, ignore_errors=True)
    return core.ok(log, stats=stats, nontrivial=log.digest())


def run_shared_dir(base: Base, sc, d, log, stats):
    """two configurations that differ in exactly one field use the same cache directory, alternately: every request must return
    the data of *its* configuration, and the directory ends up holding one loadable file per configuration"""
    S = sc["cfg"]
    if S is None:
        # resolved at run time: the neighbour asks for exactly as many mazes as the request's filters let through
        k = len(base.fresh["mazes"])
        if k == base.cfg["n_mazes"] or k < 1:
            return core.ok(log, stats={"not_judged_filters-keep-everything": 1}, nontrivial=None)
        S = dict(base.cfg, n_mazes=k)
    gS = core.stage(st_golden, S, base.knobs)
    if gS["kind"] != "returned":
        return core.ok(log, stats={"not_judged_neighbour-generation-failed": 1}, nontrivial=None)
    fresh = {"R": base.fresh, "S": gS["model"]}
    cfgs = {"R": base.cfg, "S": S}
    os.makedirs(d)
    seen = set()
    order = ("R", "S", "R", "S") * (3 if sc.get("rounds") == 3 else 1)
    same_process = bool(sc.get("same_process"))
    if same_process:
        # all four requests inside one process lifetime: whatever the library keeps in memory between requests is in play
        outs = core.stage(st_request_seq, [cfgs[w] for w in order], base.knobs, d, bool(sc.get("reuse_object")))
        stats["shared_dir_same_process"] = 1
        if sc.get("reuse_object"):
            stats["shared_dir_one_config_object_reassigned"] = 1
    for qi, who in enumerate(order):
        out = outs[qi] if same_process else core.stage(st_request, cfgs[who], base.knobs, d, None, False)
        log.add("request", who, out["kind"], out.get("exc"))
        what = f"[shared-dir:{sc.get('field')}] request for configuration {who} ({'first' if who not in seen else 'repeated'})"
        if out["kind"] == "returned":
            if out["model"]["mazes"] != fresh[who]["mazes"]:
                other = "S" if who == "R" else "R"
                whose = f"the data of the other configuration ({other})" if out["model"]["mazes"] == fresh[other]["mazes"] else "data of neither configuration"
                return core.violation("C11.cache-entries-collide", f"{what} returned {whose}: two configurations differing in {sc.get('field')} interfere through the shared cache directory", log, stats=stats)
        elif out["kind"] == "raised":
            if who not in seen:
                return core.violation("C11.cache-entries-collide", f"{what} raised {out.get('exc')}: {out.get('msg', '')[:160]} although nothing was ever cached for it in this directory", log, stats=stats)
            # repeated request: raising conforms only where the same configuration alone in a directory raises too (DESIGN 6.2)
            cd = d + "-control"
            os.makedirs(cd)
            c1 = core.stage(st_request, cfgs[who], base.knobs, cd, None, False)
            c2 = core.stage(st_request, cfgs[who], base.knobs, cd, None, False)
            shutil.rmtree(cd, ignore_errors=True)
            if c2["kind"] != "raised":
                return core.violation("C11.cache-entries-collide", f"{what} raised {out.get('exc')}: {out.get('msg', '')[:160]}, while the same two requests in a directory of their own succeed", log, stats=stats)
        else:
            return core.violation("C11.served-mismatched-config", f"{what}: {out['kind']}", log, stats=stats)
        seen.add(who)
    files = sorted(os.listdir(d))
    if len(files) != 2:
        return core.violation("C11.cache-entries-collide", f"[shared-dir:{sc.get('field')}] after requests for two different configurations the directory holds {files}", log, stats=stats)
    got = []
    for fn in files:
        rb = core.stage(st_readback, os.path.join(d, fn))
        if rb["kind"] != "returned":
            return core.violation("C11.leaves-loadable-file", f"[shared-dir] {fn} does not load: {rb.get('exc')}", log, stats=stats)
        got.append(rb["model"]["mazes"])
    if not ((got[0] == fresh["R"]["mazes"] and got[1] == fresh["S"]["mazes"]) or (got[1] == fresh["R"]["mazes"] and got[0] == fresh["S"]["mazes"])):
        return core.violation("C11.cache-entries-collide", f"[shared-dir:{sc.get('field')}] the two files left behind do not hold the two configurations' datasets", log, stats=stats)
    shutil.rmtree(d, ignore_errors=True)
    stats["shared_dir_" + str(sc.get("field"))] = 1
    return core.ok(log, stats=stats, nontrivial=log.digest())


def run_history(base: Base, sc, d, log, stats):
    """multi-fault history: steps are ["request", plan|None] / ["damage", {...}]; every request is its own process
    (restart in between); ends with two fault-free requests (bounded liveness + hit)."""
    os.makedirs(d)
    path = os.path.join(d, base.fname)

    def cur():
        try:
            with open(path, "rb") as f:
                return f.read()
        except FileNotFoundError:
            return None

    steps = list(sc["steps"]) + [["request", None], ["request", None]]
    n_req = 0
    for si, (op, arg) in enumerate(steps):
        if op == "damage":
            F = cur()
            if F is None or len(F) == 0:
                continue
            b = bytearray(F)
            if arg["kind"] == "trunc":
                b = b[: arg["at"] % len(b)]
            elif arg["kind"] == "flip":
                b[arg["at"] % len(b)] ^= arg["mask"]
            elif arg["kind"] == "delete":
                os.remove(path)
                log.add("damage", arg)
                continue
            with open(path, "wb") as f:
                f.write(bytes(b))
            log.add("damage", arg, hashlib.sha1(bytes(b)).hexdigest())
            stats["hist_damage_" + arg["kind"]] = stats.get("hist_damage_" + arg["kind"], 0) + 1
            continue
        F = cur()
        plan = arg
        if op == "request-warm":
            # the judged request runs in a process that has already served the same configuration from another directory
            # (warm in-process state: anything memoised per configuration must not stand in for this directory's file)
            plan = None
            wd = d + "-warm"
            outs = core.stage(st_request_seq, [[base.cfg, wd], [base.cfg, d]], base.knobs, d)
            shutil.rmtree(wd, ignore_errors=True)
            out = outs[1]
            out.setdefault("fired", {})
            stats["hist_request_warm"] = stats.get("hist_request_warm", 0) + 1
        elif op == "request-noload":
            # the caller forces regeneration (load_local=False): whatever lies under the name is irrelevant, the request must
            # return fresh data and replace the file by a loadable one - judged exactly like a request that finds no file
            plan = None
            out = core.stage(st_request, base.cfg, base.knobs, d, None, False, {"load_local": False})
            F = None
            stats["hist_request_noload"] = stats.get("hist_request_noload", 0) + 1
        else:
            out = core.stage(st_request, base.cfg, base.knobs, d, plan, False)
        n_req += 1
        fired = out.get("fired") or {}
        for k_, n_ in fired.items():
            stats["fired_" + k_] = stats.get("fired_" + k_, 0) + 1
        log.add("request", plan, out["kind"], out.get("exc"), sorted(fired))
        final = si >= len(steps) - 2
        if fired and not final:
            # a fault fired inside this request: it may crash, or raise that OSError; it may never return wrong data
            if out["kind"] == "returned":
                if out["model"]["mazes"] != base.fresh["mazes"]:
                    v = base.judge(out, F, d, "history-request-under-fault", allow_oserror=True)
                    if v:
                        return core.violation(v[0], v[1], log, stats=stats)
            elif out["kind"] == "raised" and not out.get("oserror"):
                v = base.judge(out, F, d, "history-request-under-fault")
                if v:
                    return core.violation(v[0], v[1], log, stats=stats)
            if (fired.get("crash") or fired.get("torn")) and F is not None and plan.get("event") is not None:
                stats["probe_crash_over_existing_file"] = 1
            if (fired.get("crash") or fired.get("torn")) and base.writer_in_place:
                # crash-model self-check: the image left by the *executed* crash path (SimCrash inside write(),
                # dead file, destructors ignored) must equal the image computed from the recorded write log
                exp = base.image_for({"kind": plan["kind"], "event": plan["event"], "bytes": plan.get("bytes", 0)})
                if plan["kind"] == "crash" and plan["event"] == -1:
                    exp = F
                if cur() != exp:
                    raise RuntimeError(f"harness: executed crash path left a different image than the write-log model for plan {plan}")
                stats["probe_executed_crash_equals_log_model"] = stats.get("probe_executed_crash_equals_log_model", 0) + 1
            continue
        v = base.judge(out, F, d, "history-final" if final else "history-request")
        if v:
            oid = v[0]
            if final and si == len(steps) - 2 and oid.startswith("C11.returns-fresh"):
                oid = "C11.liveness-after-faults-stop"
            return core.violation(oid, v[1], log, stats=stats)
        if final and si == len(steps) - 1:
            # the request after the recovering one is served from the cache (or, for the documented
            # collect_generation_meta difference, raises): it must not have rewritten the file
            stats["final_" + _outcome_class(out)] = 1
    shutil.rmtree(d, ignore_errors=True)
    stats["hist_requests"] = n_req
    return core.ok(log, stats=stats, nontrivial=log.digest())


def _group_key(s):
    return core.digest([s["cfg"], s["knobs"]])


def run(spec: dict, ctx) -> dict:
    if "probe" in spec:
        return run_probe(spec, ctx)
    batch = spec["batch"] if "batch" in spec else [spec]
    bases: dict = {}
    results = []
    for i, s in enumerate(batch):
        gk = _group_key(s)
        if gk not in bases:
            bases[gk] = Base(s["cfg"], s["knobs"], ctx.scratch, "b%d" % len(bases))
        base = bases[gk]
        if base.not_judged:
            results.append(core.ok(None, stats={"not_judged_" + base.not_judged: 1}, nontrivial=None))
            continue
        if base.base_violation:
            log = core.EventLog()
            log.add("base", s["cfg"], s["knobs"])
            results.append(core.violation(base.base_violation[0], base.base_violation[1], log, spec={"cfg": s["cfg"], "knobs": s["knobs"], "scenarios": []}))
            continue
        if not s["scenarios"]:
            results.append(core.ok(None, stats={"base_only": 1}, nontrivial=None))
            continue
        r = run_scenario(base, s["scenarios"][0], i)
        if r.get("status") == "violation":
            r["spec"] = s
        results.append(r)
    if "batch" in spec:
        return {"status": "batch", "results": results}
    return results[0]


def run_probe(spec, ctx):
    "phase 1: base checks (miss, read-back, control hit) + layout of the write trace for scenario enumeration"
    s = spec["probe"]
    base = Base(s["cfg"], s["knobs"], ctx.scratch, "p")
    if base.not_judged:
        return core.ok(None, stats={"not_judged_" + base.not_judged: 1}, layout=None, nontrivial=None)
    if base.base_violation:
        log = core.EventLog()
        log.add("base", s)
        return core.violation(base.base_violation[0], base.base_violation[1], log, spec={"cfg": s["cfg"], "knobs": s["knobs"], "scenarios": []})
    zf = zipfile.ZipFile(io.BytesIO(base.good))
    bounds = set()
    members = []
    for zi in zf.infolist():
        hdr_end = zi.header_offset + 30 + len(zi.filename.encode()) + len(zi.extra)
        bounds.update([zi.header_offset, hdr_end, hdr_end + zi.compress_size])
        members.append([zi.filename, zi.header_offset, hdr_end, hdr_end + zi.compress_size])
    bounds.update([zf.start_dir, len(base.good) - 22, len(base.good) - 1])
    layout = {
        "size": len(base.good),
        "write_lens": [len(dta) for _, dta in base.writes],
        "write_offsets": [o for o, _ in base.writes],
        "bounds": sorted(b for b in bounds if 0 <= b < len(base.good)),
        "members": members,
        "start_dir": zf.start_dir,
        "n_fresh": len(base.fresh["mazes"]),
        "control": base.control,
        "format_minimal": base.knobs.get("threshold") is not None and len(base.fresh["mazes"]) >= base.knobs["threshold"],
    }
    log = core.EventLog()
    log.add("layout", layout["size"], layout["write_lens"])
    return core.ok(log, stats={"base_checked": 1, "control_" + base.control: 1}, layout=layout, nontrivial=None)


# ------------------------------------------------------------------------------------------------
# scenario generation (main process; no library)
# ------------------------------------------------------------------------------------------------
def rand_knobs(rng: random.Random, n_mazes: int) -> dict:
    thr = rng.choice([100, 100, None, 1, max(1, n_mazes), n_mazes + 1])
    return {
        "threshold": thr,
        "zanj": {"compress": rng.random() < 0.6, "external_array_threshold": rng.choice([256, 256, 16, 0])},
        "clock": {"t0": float(rng.randrange(400_000_000, 4_000_000_000)), "steps": [rng.choice([0.0, 1.0, -3600.0, 86400.0 * 365, 0.5, -1.0]) for _ in range(4)]},
        "mem": rng.choice([0, 255, rng.randrange(1, 2**31)]),  # what uninitialised memory (np.empty padding) contains
        "request": rng.choice([{}, {}, {"do_download": False}, {"do_download": False, "verbose": True}]),
    }


def foreign_variants(rng: random.Random, R: dict) -> list:
    out = []

    def var(field, **chg):
        S = dict(R)
        S.update(chg)
        out.append({"kind": "foreign", "field": field, "cfg": S})

    var("name", name=R["name"] + "x")
    var("seed", seed=(R.get("seed", 42) + 1) % 2**31)
    var("grid_n", grid_n=R["grid_n"] + 1)
    others = [g for g in _ds.GENS if g != R["maze_ctor"]]
    g2 = rng.choice(others)
    var("maze_ctor", maze_ctor=g2, maze_ctor_kwargs={})
    kw = dict(R.get("maze_ctor_kwargs", {}))
    if R["maze_ctor"] in ("gen_percolation", "gen_dfs_percolation"):
        kw["p"] = 0.55 if kw.get("p") != 0.55 else 0.45
    elif R["maze_ctor"] == "gen_wilson":
        kw = None
    else:
        kw["do_forks"] = not kw.get("do_forks", True)
    if kw is not None:
        var("maze_ctor_kwargs", maze_ctor_kwargs=kw)
    ek = dict(R.get("endpoint_kwargs", {}))
    ek["endpoints_not_equal"] = not ek.get("endpoints_not_equal", False)
    var("endpoint_kwargs", endpoint_kwargs=ek)
    f = list(R.get("applied_filters", []))
    if f:
        var("applied_filters-removed", applied_filters=f[:-1])
    var("applied_filters-added", applied_filters=f + [{"name": "path_length", "args": [1], "kwargs": {}}])
    if f:
        # same filter names in the same order, one argument differs
        g = [dict(x) for x in f]
        i = rng.randrange(len(g))
        if g[i].get("args"):
            a = list(g[i]["args"])
            a[0] = (a[0] + 1) if isinstance(a[0], (int, float)) and a[0] is not None else 1
            g[i]["args"] = a
        elif g[i].get("kwargs"):
            k0 = sorted(g[i]["kwargs"])[0]
            v0 = g[i]["kwargs"][k0]
            g[i]["kwargs"] = dict(g[i]["kwargs"], **{k0: (v0 + 1) if isinstance(v0, (int, float)) and v0 is not None else 1})
        else:
            g[i]["kwargs"] = {"minimum_difference_connection_list": 2} if g[i]["name"] == "remove_duplicates" else g[i]["kwargs"]
        if g != f:
            var("applied_filters-argument", applied_filters=g)
    var("seq_len_max", seq_len_max=256)
    var("n_mazes", n_mazes=R["n_mazes"] + rng.choice([1, 2, 3]))
    if R["n_mazes"] > 1:
        var("n_mazes", n_mazes=R["n_mazes"] - 1)
    out.append({"kind": "foreign-object"})
    out.append({"kind": "foreign-collection"})
    return out


def scenarios_for(rng: random.Random, R: dict, layout: dict, tier: str) -> list:
    sc: list = []
    lens = layout["write_lens"]
    size = layout["size"]
    nW = len(lens)
    # every crash point of the writer, every write torn at three places
    for k in range(-1, nW + 1):
        sc.append({"kind": "crash", "event": k})
    for k, ln in enumerate(lens):
        for j in sorted({1, ln // 2, ln - 1}):
            if 0 < j < ln:
                sc.append({"kind": "torn", "event": k, "bytes": j})
    # truncation
    EVERY_BYTE_LIMIT = 12000  # thorough: every byte of files up to this size; larger archives (uncompressed, many members) are
    # swept with the smallest stride that keeps the sweep at that many offsets, plus every member / header boundary
    if tier == "thorough" and size <= EVERY_BYTE_LIMIT:
        cuts = range(0, size)
    elif tier == "thorough":
        stride = -(-size // EVERY_BYTE_LIMIT)
        cuts = sorted(set(range(0, size, stride)) | set(layout["bounds"]) | {b + 1 for b in layout["bounds"] if b + 1 < size} | {size - 1})
    else:
        stride = max(1, size // 70)
        cuts = sorted(set(range(0, size, stride)) | set(layout["bounds"]) | {b + 1 for b in layout["bounds"] if b + 1 < size} | {size - 1})
    for b in cuts:
        sc.append({"kind": "trunc", "at": b})
    # single-byte corruption
    if tier == "thorough":
        fstride = 1 if size <= EVERY_BYTE_LIMIT else -(-size // EVERY_BYTE_LIMIT)
        for b in range(rng.randrange(fstride), size, fstride):
            sc.append({"kind": "flip", "at": b, "mask": rng.choice([0x01, 0x80, 0xFF, rng.randrange(1, 256)])})
    else:
        stride = max(1, size // 55)
        offs = sorted(set(range(rng.randrange(stride), size, stride)) | set(layout["bounds"]))
        for b in offs:
            sc.append({"kind": "flip", "at": b, "mask": rng.choice([0x01, 0x80, 0xFF, rng.randrange(1, 256)])})
    # every byte of every zip structural record (local headers, central directory records, end record): these are
    # the bytes whose corruption makes the reader fail in *different ways* (BadZipFile, NotImplementedError, RuntimeError,
    # KeyError, zlib.error, ...), so each is hit with several masks
    smasks = [0x01, 0x80, 0xFF] if tier == "quick" else [0x01, 0x02, 0x04, 0x08, 0x10, 0x20, 0x40, 0x80, 0xFF]
    struct_bytes = set()
    for name, h0, h1, d1 in layout["members"]:
        struct_bytes.update(range(h0, h1))
    struct_bytes.update(range(layout["start_dir"], size))
    sb = sorted(b for b in struct_bytes if 0 <= b < size)
    if tier == "thorough" and len(sb) > 4000:
        smasks = [0x01, 0x08, 0x80, 0xFF]
    if tier == "quick" and len(sb) > 700:
        # keep it bounded: all of the central directory + end record, a seeded sample of the local headers
        cd = [b for b in sb if b >= layout["start_dir"]]
        lh = [b for b in sb if b < layout["start_dir"]]
        sb = sorted(set(cd[:520]) | set(rng.sample(lh, min(len(lh), 180))))
    for b in sb:
        for m in smasks:
            sc.append({"kind": "flip", "at": b, "mask": m, "region": "zip-structure"})
    # zeroed blocks: each member's header and data, the central directory, the end record
    for name, h0, h1, d1 in layout["members"]:
        sc.append({"kind": "zero", "from": h0, "to": h1})
        if d1 > h1:
            sc.append({"kind": "zero", "from": h1, "to": d1})
    sc.append({"kind": "zero", "from": layout["start_dir"], "to": size - 22})
    sc.append({"kind": "zero", "from": size - 22, "to": size})
    for _ in range(6 if tier == "quick" else 40):
        a = rng.randrange(size)
        sc.append({"kind": "zero", "from": a, "to": min(size, a + rng.choice([1, 4, 64, 512]))})
    # lost (never synced) writes: every single write, seeded pairs / triples
    for k in range(nW):
        sc.append({"kind": "lost", "lost": [k]})
    for _ in range(10 if tier == "quick" else 120):
        m = rng.choice([2, 2, 3, 4])
        if nW >= m:
            sc.append({"kind": "lost", "lost": sorted(rng.sample(range(nW), m))})
    sc += [{"kind": "empty"}, {"kind": "missing"}, {"kind": "missing-dir"}]
    fv = foreign_variants(rng, R)
    sc += fv
    # the same one-field neighbours, but as *independent users of the same cache directory*
    sc += [{"kind": "shared-dir", "field": x["field"], "cfg": x["cfg"], "same_process": rng.random() < 0.5, "rounds": 3 if rng.random() < 0.2 else 1} for x in fv if x["kind"] == "foreign"]
    # ... and a caller that keeps one configuration object and only re-assigns its maze count between requests
    sc += [{"kind": "shared-dir", "field": "n_mazes-reassigned", "cfg": x["cfg"], "same_process": True, "reuse_object": True} for x in fv if x["kind"] == "foreign" and x["field"] == "n_mazes"]
    # one process that keeps requesting the configuration while the file is damaged under it / while it edits what it was given
    for _ in range(4 if tier == "quick" else 24):
        sc.append({"kind": "warm-history", "damage": rng.choice([{"kind": "trunc", "at": rng.randrange(size)}, {"kind": "flip", "at": rng.randrange(size), "mask": rng.choice([1, 0x80, 0xFF])}])})
    sc.append({"kind": "warm-history", "damage": None})
    if R.get("applied_filters"):
        sc += [{"kind": "shared-dir", "field": "n_mazes-survivors", "cfg": None, "same_process": sp} for sp in (False, True)]
    # multi-fault histories
    for _ in range(7 if tier == "quick" else 40):
        steps = []
        for _ in range(rng.randint(1, 4)):
            r = rng.random()
            if r < 0.5:
                kind = rng.choice(["crash", "torn", "eio-w", "enospc", "eio-r", "lost"])
                if kind == "eio-r":
                    plan = {"kind": kind, "event": rng.randrange(0, 12)}
                elif kind == "lost":
                    plan = {"kind": kind, "lost": sorted(rng.sample(range(nW), min(nW, rng.randint(1, 3))))}
                elif kind == "torn":
                    k = rng.randrange(nW)
                    plan = {"kind": kind, "event": k, "bytes": rng.randrange(0, max(1, lens[k]))}
                else:
                    plan = {"kind": kind, "event": rng.randrange(-1 if kind == "crash" else 0, nW)}
                steps.append(["request", plan])
            elif r < 0.8:
                steps.append(["damage", rng.choice([{"kind": "trunc", "at": rng.randrange(size)}, {"kind": "flip", "at": rng.randrange(size), "mask": rng.choice([1, 0x80, 0xFF])}, {"kind": "delete"}])])
            elif r < 0.88:
                steps.append(["request", None])
            elif r < 0.94:
                steps.append(["request-warm", None])
            else:
                steps.append(["request-noload", None])
        sc.append({"kind": "history", "steps": steps})
    return sc


def execute_all(pool, rng: random.Random, tier: str, n: int):
    cfgs = []
    probes = []
    pairs = []
    drawn = 0
    for _round in range(5):  # configurations whose golden generation raises a documented error are redrawn
        need = n - sum(1 for (_R, _k), r in zip(cfgs, probes) if isinstance(r, dict) and r.get("layout") and not _k.get("only"))
        if need <= 0:
            break
        batch = []
        for _ in range(need):
            i = drawn
            drawn += 1
            R = _ds.rand_cfgspec(rng, max_n=6 if tier == "thorough" else 5, max_mazes=8, filters=True, rich_endpoints=(i % 2 == 0))
            if i % 2 == 1 and not R["applied_filters"]:
                R["applied_filters"] = [rng.choice([{"name": "path_length", "args": [rng.randint(1, 3)], "kwargs": {}}, {"name": "start_end_distance", "args": [], "kwargs": {"min_distance": rng.randint(0, 2)}}, {"name": "truncate_count", "args": [rng.randint(2, 6)], "kwargs": {}}])]
            if i % 3 == 1:  # names with dots (file-name handling must not treat them as extensions)
                R["name"] = rng.choice(["v1.5", "a.b-c", "run.2024.1", "x."])
            knobs = rand_knobs(rng, R["n_mazes"])
            if i % 3 == 2:  # every third configuration selects the minimal format through a lowered threshold
                knobs["threshold"] = rng.choice([1, 2, R["n_mazes"]])
            batch.append((R, knobs))
        if drawn >= n and not any(k.get("only") for _, k in cfgs + batch):
            # one extra configuration with a four-digit maze count: the cache file name abbreviates such counts ("n1.0K" for
            # 1000 and for 1024), so the configuration hash is all that separates neighbours; only the shared-directory
            # scenario is run for it (everything else would regenerate 1000 mazes per scenario)
            Rb = {"name": "big", "grid_n": 2, "n_mazes": 1000, "maze_ctor": "gen_dfs", "maze_ctor_kwargs": {}, "endpoint_kwargs": {}, "seed": rng.randrange(1000), "applied_filters": []}
            kb = rand_knobs(rng, 1000)
            kb.update(threshold=100, only="big-count", request={})
            batch.append((Rb, kb))
            # ... and one whose *content* is what the small grids never have: corner-to-corner routes through a 32x32 maze are
            # practically always longer than 127 cells (often longer than 255), stored in the minimal format (threshold knob 1). What the cache returns on a hit
            # and leaves behind after a regeneration is compared with a fresh generation as for every other configuration;
            # only a handful of scenarios are run for it (a miss, two damaged files, two warm histories)
            Rl = {"name": "long", "grid_n": 32, "n_mazes": 4, "maze_ctor": "gen_dfs", "maze_ctor_kwargs": {}, "endpoint_kwargs": {"allowed_start": [[0, 0]], "allowed_end": [[31, 31]]}, "seed": rng.randrange(1000), "applied_filters": []}
            kl = rand_knobs(rng, 4)
            kl.update(threshold=rng.choice([1, 4]), only="long-solutions", request={})
            batch.append((Rl, kl))
        K = len(pool.hashseeds)
        res = pool.run([{"prop": PROP, "tier": tier, "timeout": JOB_TIMEOUT, "slot": (len(cfgs) + j) % K, "spec": {"probe": {"cfg": R, "knobs": k}}} for j, (R, k) in enumerate(batch)])
        cfgs += batch
        probes += res
        pairs += [({"probe": {"cfg": R, "knobs": k}}, r) for (R, k), r in zip(batch, res)]
    specs = []
    layouts = []
    K = len(pool.hashseeds)
    for ci, ((R, k), r) in enumerate(zip(cfgs, probes)):
        slot = ci % K  # every scenario of a configuration runs in the interpreter slot that probed it (one slot in three is `python -O`)
        if not isinstance(r, dict) or r.get("status") != "ok" or not r.get("layout"):
            continue
        layouts.append({"cfg": R, "knobs": k, "size": r["layout"]["size"], "n_writes": len(r["layout"]["write_lens"]), "minimal_format": r["layout"]["format_minimal"], "control": r["layout"]["control"]})
        if k.get("only") == "big-count":
            for sp in (False, True):
                specs.append({"cfg": R, "knobs": k, "slot": slot, "scenarios": [{"kind": "shared-dir", "field": "n_mazes-same-abbreviation", "cfg": dict(R, n_mazes=1024), "same_process": sp}]})
            continue
        if k.get("only") == "long-solutions":
            size = r["layout"]["size"]
            for sc in (
                {"kind": "missing"},
                {"kind": "empty"},
                {"kind": "trunc", "at": size // 2},
                {"kind": "trunc", "at": size - 1},
                {"kind": "history", "steps": [["request", None], ["request-warm", None]]},
                {"kind": "history", "steps": [["damage", {"kind": "delete"}], ["request", None], ["request", None]]},
            ):
                specs.append({"cfg": R, "knobs": k, "slot": slot, "scenarios": [sc]})
            continue
        for sc in scenarios_for(rng, R, r["layout"], tier):
            specs.append({"cfg": R, "knobs": k, "slot": slot, "scenarios": [sc]})
    ch = CHUNK[tier]
    jobs = []
    shaped = []
    for slot in range(K):
        mine = [x for x in specs if x["slot"] == slot]
        for i in range(0, len(mine), ch):
            g = mine[i : i + ch]
            jobs.append({"prop": PROP, "tier": tier, "timeout": JOB_TIMEOUT, "slot": slot, "spec": {"batch": g}})
            shaped.append({"batch": g})
    results = pool.run(jobs)
    from mdsim.main import flatten

    # report in configuration order, whatever the number of interpreter slots the scenarios were spread over
    order = {id(x): i for i, x in enumerate(specs)}
    pairs += sorted(flatten(shaped, results), key=lambda sr: order.get(id(sr[0]), len(order)))
    cov = {
        "configurations": layouts,
        "exhaustive_per_configuration": "crash points and torn writes: all; truncation/flip offsets: " + ("every byte" if tier == "thorough" else "dense stride + member/header boundaries"),
    }
    return pairs, cov


def shrink(spec: dict, result: dict):
    "simpler configuration first, then a simpler fault"
    if "scenarios" not in spec:
        return
    R = spec["cfg"]
    for fld, val in (("applied_filters", []), ("endpoint_kwargs", {}), ("maze_ctor_kwargs", {}), ("n_mazes", max(1, R["n_mazes"] // 2)), ("grid_n", max(2, R["grid_n"] - 1)), ("name", "t"), ("seed", 42)):
        if R.get(fld) != val:
            yield dict(spec, cfg=dict(R, **{fld: val}))
    if R["maze_ctor"] != "gen_dfs":
        yield dict(spec, cfg=dict(R, maze_ctor="gen_dfs", maze_ctor_kwargs={}))
    k = spec["knobs"]
    for kk, val in (("threshold", 100), ("zanj", {"compress": True, "external_array_threshold": 256}), ("clock", {"t0": 1.7e9, "steps": [0.0]}), ("mem", 0), ("request", {})):
        if k.get(kk) != val:
            yield dict(spec, knobs=dict(k, **{kk: val}))
    if spec["scenarios"] and spec["scenarios"][0]["kind"] == "history":
        st = spec["scenarios"][0]["steps"]
        for i in range(len(st)):
            yield dict(spec, scenarios=[{"kind": "history", "steps": st[:i] + st[i + 1 :]}])


def sample_of(spec, result):
    if "probe" in spec:
        return {"probe": spec["probe"]["cfg"], "knobs": spec["probe"]["knobs"]}
    return {"cfg": spec["cfg"], "knobs": spec["knobs"], "scenario": spec["scenarios"][0] if spec["scenarios"] else None, "digest": result.get("digest")}
