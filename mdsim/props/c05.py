"""C05 — datasets survive serialisation and disk round trips (DESIGN §3 C05).

Fault-free configuration of the storage simulation: stateful histories over a simulated disk with a handful of
paths; process restarts between segments (only files survive); the format-selecting global knob, the ZANJ layout
knobs and the clock vary per history.  Oracle = in-memory dataset model recorded *before* each operation.
"""

from __future__ import annotations

import json
import os
import random

import numpy as np

from mdsim import core
from mdsim.props import _ds
from mdsim.seams import disk as sdisk
from mdsim.seams import mem as smem

PROP = "C05"
LEVEL = "exploration"
TECHNIQUE = "deterministic simulation: seeded stateful operation histories over the storage seam (save / overwrite / restart / read) + in-memory dataset reference model"
RUNS = {"quick": 600, "thorough": 50000}
JOB_TIMEOUT = 900.0
COMPONENTS = {
    "real": ["MazeDataset.serialize/_serialize_full/_serialize_minimal/_serialize_minimal_soln_cat/load", "MazeDataset.save/read", "MazeDatasetCollection serialize/load/save/read", "zanj.ZANJ save/read", "stdlib zipfile", "filters used to build inputs"],
    "stub": ["archive file object (FaultyFile, fault-free)", "clock seen by zanj/zipfile (SimClock)", "contents of np.empty() memory in the dataset serialiser (seed-derived garbage pattern: padding must never leak into loaded data)"],
}
RULE = (
    "one run = one history of ~6-14 operations (make/filter/collect/strip/threshold/in-memory round trip in each format/save/overwrite/"
    "restart/read/collection) across 1-3 simulated process lifetimes; distinct = distinct history digests; non-trivial = at least one "
    "round trip through a file after a restart or one minimal-format round trip"
)
LEVEL_TEXT = (
    "Seeded stateful histories through the storage seam with process restarts (only files survive), randomised format threshold, ZANJ layout knobs and clock; every loaded dataset is compared value by value (canonicalised arrays, config fields, collected-metadata counts) with a plain-data model recorded before the operation. Inputs include hand-assembled datasets (stale counts, stripped or collected metadata, shared and re-ordered maze objects of reloaded datasets), grids wider than 128 cells kept cheap (boundary widths 127-130, 200, 256, 257 dealt in turn), endpoint lists long enough to be stored as external archive members, collections built with shared and with copied member configurations, collections with an empty member under thresholds on either side of the member and collection sizes (dealt, one history in fifteen), every format written through the disk seam, save targets spelled without the extension / with dots in the bare name / as pathlib.Path, saved forms loaded twice, the saved form of an equal donor dataset edited everywhere (entries, items, array contents) before the round trip; one interpreter slot in three runs under python -O. Sampling, not proof.",
    "Trusted: stdlib zipfile/NumPy; the storage seam is fault-free here (faults are C11's business).",
)


def canon_meta(m):
    if m is None:
        return None

    def k(x):
        if isinstance(x, str):
            return x
        if isinstance(x, (tuple, list, np.ndarray)):
            return "(" + ", ".join(str(int(v)) for v in x) + ")"
        if isinstance(x, (bool, np.bool_)):
            return str(bool(x))
        if isinstance(x, (int, np.integer)):
            return str(int(x))
        if isinstance(x, (float, np.floating)):
            return str(float(x))
        return str(x)

    out = {}
    for key, counts in m.items():
        inner = {}
        for kk, vv in counts.items():
            inner[k(kk)] = inner.get(k(kk), 0) + int(vv)
        out[k(key)] = inner
    return out


def full_model(ds) -> dict:
    if type(ds).__name__ == "MazeDatasetCollection":
        return {
            "class": "MazeDatasetCollection",
            "name": ds.cfg.name,
            "members": [full_model(d) for d in ds.maze_datasets],
            "meta": canon_meta(ds.generation_metadata_collected),
            "len": len(ds),
        }
    if type(ds).__name__ != "MazeDataset":
        return {"class": type(ds).__name__}  # e.g. a plain dict when no loader recognised the stored format: compare() reports it
    try:
        m = _ds.ds_model(ds)
    except Exception as e:  # noqa: BLE001 - e.g. the "mazes" of a loaded dataset are not mazes at all
        return {"class": "MazeDataset", "malformed": f"{type(e).__name__}: {str(e)[:160]}", "n": len(getattr(ds, "mazes", []) or [])}
    m["meta"] = canon_meta(ds.generation_metadata_collected)
    m["ends"] = [[[int(x) for x in np.asarray(z.start_pos)], [int(x) for x in np.asarray(z.end_pos)]] for z in ds.mazes]
    m["per_maze_meta"] = [z.generation_meta is not None for z in ds.mazes]
    return m


def compare(loaded: dict, after: dict, before: dict, what: str):
    "loaded vs the source's model after the call; source before vs after"
    if loaded["class"] != after["class"]:
        raise core.Violation("C05.class", f"{what}: loaded a {loaded['class']}, source is a {after['class']}")
    if "malformed" in loaded:
        raise core.Violation("C05.length", f"{what}: the loaded dataset holds {loaded.get('n')} items that are not mazes ({loaded['malformed']})")
    if loaded["class"] == "MazeDatasetCollection":
        if len(loaded["members"]) != len(after["members"]):
            raise core.Violation("C05.collection-members", f"{what}: {len(loaded['members'])} members loaded, {len(after['members'])} saved")
        for i, (l, a, b) in enumerate(zip(loaded["members"], after["members"], before["members"])):
            compare(l, a, b, f"{what} member {i}")
        if loaded["len"] != after["len"]:
            raise core.Violation("C05.collection-members", f"{what}: collection length {loaded['len']} != {after['len']}")
        return
    # the source itself: mazes untouched, config untouched except the documented in-place metadata collection
    if after["mazes"] != before["mazes"]:
        raise core.Violation("C05.source-disturbed", f"{what}: serialising changed the source dataset's mazes")
    ka, kb = dict(after["cfg"]), dict(before["cfg"])
    # the maze count is refreshed from the data by the documented in-place collection (update_self_config); it is not
    # a compared field of a configuration, and a hand-assembled dataset may legitimately carry a stale one
    ka.pop("n_mazes", None)
    kb.pop("n_mazes", None)
    if _ds.key_relation(ka, kb) not in ("equal", "equal+cgm"):
        raise core.Violation("C05.source-disturbed", f"{what}: serialising changed the source configuration beyond the documented metadata collection")
    if loaded["cfg"] != after["cfg"]:
        diff = {k: (loaded["cfg"].get(k), after["cfg"].get(k)) for k in after["cfg"] if loaded["cfg"].get(k) != after["cfg"].get(k)}
        raise core.Violation("C05.config-equal", f"{what}: loaded configuration differs: {diff}")
    if len(loaded["mazes"]) != len(after["mazes"]):
        raise core.Violation("C05.length", f"{what}: {len(loaded['mazes'])} mazes loaded, {len(after['mazes'])} in the source")
    for i, (l, a) in enumerate(zip(loaded["mazes"], after["mazes"])):
        if l[0] != a[0] or l[1] != a[1]:
            raise core.Violation("C05.connection-structure", f"{what}: maze {i} connection structure differs")
        if l[2] != a[2]:
            raise core.Violation("C05.solution", f"{what}: maze {i} solution differs: loaded {l[2][:6]}.. (len {len(l[2])}) vs {a[2][:6]}.. (len {len(a[2])})")
        if loaded["ends"][i] != [a[2][0], a[2][-1]]:
            raise core.Violation("C05.endpoints", f"{what}: maze {i} start/end {loaded['ends'][i]} do not match the solution ends")
    if after["meta"] is not None and loaded["meta"] != after["meta"]:
        raise core.Violation("C05.collected-metadata", f"{what}: collected generation metadata changed (keys {sorted(loaded['meta'] or {})} vs {sorted(after['meta'])})")


# ------------------------------------------------------------------------------------------------
# one simulated process lifetime
# ------------------------------------------------------------------------------------------------
def disk_name(spelled: str) -> str:
    "the file a spelled save target lands in: the archive writer appends its extension unless the name already ends with it"
    n = spelled[5:] if spelled.startswith("path:") else spelled
    return n if n.endswith(".zanj") else n + ".zanj"


def path_arg(base_dir: str, spelled: str):
    "how the caller spells the target: str or pathlib.Path, with or without the extension, with dots in the bare name"
    import pathlib

    if spelled.startswith("path:"):
        return pathlib.Path(base_dir) / spelled[5:]
    return os.path.join(base_dir, spelled)


def st_segment(ops, base_dir, clock, files_model):
    """executes ops; returns {"violation": [oracle,msg]|None, "files": updated model, "events": [...], "stats": {}}"""
    from maze_dataset import MazeDataset, MazeDatasetCollection, MazeDatasetCollectionConfig
    from maze_dataset.dataset import maze_dataset as mdm
    from zanj import ZANJ

    slots: dict = {}
    events: list = []
    stats: dict = {}
    files = dict(files_model)
    dk = sdisk.SimDisk(None)
    clk = sdisk.SimClock(clock["t0"], clock["steps"])

    def bump(k):
        stats[k] = stats.get(k, 0) + 1

    def selected_minimal(ds):
        t = mdm.SERIALIZE_MINIMAL_THRESHOLD
        return t is not None and len(ds) >= t

    def skip_excluded(ds, how):
        "the statement excludes empty datasets in a minimal format; collections hold full-format members when empty"
        minimal = how in ("minimal", "soln_cat") or (how == "serialize" and selected_minimal(ds))
        return minimal and len(ds) == 0

    try:
        with sdisk.Installed(dk, clk), smem.Installed(clock.get("mem", 0)):
            for op in ops:
                name = op[0]
                if name == "threshold":
                    mdm.set_serialize_minimal_threshold(op[1])
                    events.append(["threshold", op[1]])
                elif name == "make":
                    try:
                        slots[op[1]] = MazeDataset.from_config(_ds.make_cfg(op[2]), load_local=False, save_local=False)
                        events.append(["make", op[1], len(slots[op[1]])])
                    except Exception as e:  # noqa: BLE001 - documented generation errors: slot stays empty
                        events.append(["make-failed", op[1], type(e).__name__])
                elif name == "filter":
                    src = slots.get(op[1])
                    if src is None:
                        continue
                    f = op[3]
                    try:
                        slots[op[2]] = getattr(src.filter_by, f["name"])(*f.get("args", []), **f.get("kwargs", {}))
                        events.append(["filter", f["name"], len(slots[op[2]])])
                    except Exception as e:  # noqa: BLE001 - filters are C08's business
                        events.append(["filter-failed", f["name"], type(e).__name__])
                elif name == "hand":
                    # a dataset assembled by hand from the mazes of another one (sliced / repeated / re-ordered), the way user
                    # code does it: the configuration is copied as it is, so its maze count may not match the data
                    src = slots.get(op[1])
                    if src is None or type(src).__name__ != "MazeDataset" or len(src) == 0:
                        continue
                    import copy

                    from maze_dataset import SolvedMaze

                    picked = [src.mazes[i % len(src)] for i in op[3]]
                    strip = op[4]
                    if len(op) > 6 and op[6] == "reorder-shared":
                        # the same maze OBJECTS in another order (sorted / shuffled by the user): arrays that are views of one
                        # loaded block stay views of it
                        r2 = random.Random(len(op[3]) * 7919 + len(src))
                        picked = list(src.mazes)
                        r2.shuffle(picked)
                        mazes = picked
                        strip = False
                        bump("probe_handmade_reordered_shared_objects")
                    else:
                        mazes = [SolvedMaze(connection_list=z.connection_list.copy(), solution=z.solution.copy(), generation_meta=None if strip else copy.deepcopy(z.generation_meta)) for z in picked]
                    coll = copy.deepcopy(src.generation_metadata_collected) if op[5] else None
                    if coll is None and not strip and any(z.generation_meta is None for z in mazes) and not all(z.generation_meta is None for z in mazes):
                        continue  # partly stripped: collection is documented to raise
                    own_cfg = copy.deepcopy(src.cfg)
                    if len(op) > 6 and op[6] == "explicit-none":
                        # the caller's OWN configuration object, spelled with explicit None arguments ("use the default"), held
                        # by the dataset as it is (generation hands out a config that already went through serialise/load)
                        import dataclasses

                        ek = dict(own_cfg.endpoint_kwargs)
                        for key in ("allowed_start", "allowed_end")[: 1 + len(op[3]) % 2]:
                            ek.setdefault(key, None)
                        ck = dict(own_cfg.maze_ctor_kwargs)
                        if getattr(own_cfg.maze_ctor, "__name__", "") == "gen_dfs":
                            ck.setdefault("max_tree_depth", None)
                        own_cfg = dataclasses.replace(own_cfg, endpoint_kwargs=ek, maze_ctor_kwargs=ck)
                        bump("probe_handmade_cfg_with_explicit_none_arguments")
                    d = MazeDataset(cfg=own_cfg, mazes=mazes, generation_metadata_collected=coll)
                    slots[op[2]] = d
                    events.append(["hand", len(src), len(d), bool(strip), coll is not None, int(d.cfg.n_mazes)])
                    if int(d.cfg.n_mazes) != len(d):
                        bump("probe_handmade_count_differs_from_cfg")
                elif name == "reload":
                    # a dataset as it comes back from one of the formats (in memory), kept as a live dataset for later operations
                    src = slots.get(op[1])
                    if src is None or type(src).__name__ != "MazeDataset" or len(src) == 0:
                        continue
                    fn = {"full": "_serialize_full", "minimal": "_serialize_minimal", "soln_cat": "_serialize_minimal_soln_cat"}[op[3]]
                    try:
                        slots[op[2]] = MazeDataset.load(getattr(src, fn)())
                        events.append(["reload", op[3], len(src)])
                    except Exception as e:  # noqa: BLE001 - judged by the mem/save operations
                        events.append(["reload-failed", op[3], type(e).__name__])
                elif name == "mkcoll":
                    members = [slots[s] for s in op[2] if s in slots and type(slots[s]).__name__ == "MazeDataset"]
                    if not members:
                        continue
                    # members of a collection are serialised through serialize(): empty members need the full format
                    if any(len(m) == 0 and selected_minimal(m) for m in members):
                        continue
                    mode = op[3] if len(op) > 3 else "shared"
                    if mode == "copied":
                        # what MazeDatasetCollection.generate / from_config produce: the collection's config lists configuration
                        # objects that are equal to, but distinct from, the members' own
                        import copy

                        cfg = MazeDatasetCollectionConfig(name="coll%d" % len(members), maze_dataset_configs=[copy.deepcopy(m.cfg) for m in members])
                        bump("probe_collection_with_distinct_config_objects")
                    else:
                        cfg = MazeDatasetCollectionConfig(name="coll%d" % len(members), maze_dataset_configs=[m.cfg for m in members])
                    slots[op[1]] = MazeDatasetCollection(cfg=cfg, maze_datasets=members)
                    events.append(["mkcoll", [len(m) for m in members]])
                    if any(len(m) == 0 for m in members):
                        bump("probe_collection_with_empty_member")
                elif name == "mem":
                    ds = slots.get(op[1])
                    if ds is None:
                        continue
                    how = op[2]
                    is_coll = type(ds).__name__ == "MazeDatasetCollection"
                    if is_coll:
                        how = "serialize"
                        if any(len(m) == 0 and selected_minimal(m) for m in ds.maze_datasets):
                            continue
                    elif skip_excluded(ds, how):
                        continue
                    before = full_model(ds)
                    fn = {"serialize": "serialize", "full": "_serialize_full", "minimal": "_serialize_minimal", "soln_cat": "_serialize_minimal_soln_cat"}[how]
                    what = f"load({fn}()) of {'collection' if is_coll else 'dataset'} len={len(ds)}"
                    if not is_coll and len(ds) > 0 and op[1].endswith(("1", "4", "7")):
                        # somebody else in this process asked for the saved form of an equal dataset (own copies of every maze
                        # and of the configuration) and edited what it got, everywhere: this dataset's round trip is its own
                        import copy

                        from maze_dataset import SolvedMaze

                        try:
                            donor = MazeDataset(
                                cfg=copy.deepcopy(ds.cfg),
                                mazes=[SolvedMaze(connection_list=z.connection_list.copy(), solution=z.solution.copy(), generation_meta=copy.deepcopy(z.generation_meta)) for z in ds.mazes],
                                generation_metadata_collected=copy.deepcopy(ds.generation_metadata_collected),
                            )
                            _ds.scramble(getattr(donor, fn)())
                            bump("probe_donor_saved_form_edited")
                        except Exception:  # noqa: BLE001 - the donor's own troubles are not this dataset's
                            bump("donor_failed")
                        if full_model(ds) != before:
                            return {"violation": ["C05.source-disturbed", f"{what}: editing the saved form of ANOTHER, equal dataset object changed this dataset", None], "files": files, "events": events, "stats": stats}
                    try:
                        data = getattr(ds, fn)()
                        loaded = type(ds).load(data)
                        if op[1].endswith(("0", "3", "6")):
                            # the same in-memory saved form loaded a second time: loading must not consume or alter it
                            loaded = type(ds).load(data)
                            bump("probe_saved_form_loaded_twice")
                    except Exception as e:  # noqa: BLE001
                        key = _finding_key(ds, e)
                        return {"violation": ["C05.roundtrip-raised", f"{what} raised {type(e).__name__}: {str(e)[:200]}", key], "files": files, "events": events, "stats": stats}
                    after = full_model(ds)
                    fmt = data.get("__format__") if isinstance(data, dict) else None
                    events.append(["mem", how, fmt, len(ds)])
                    bump("fmt_" + str(fmt))
                    compare(full_model(loaded), after, before, what)
                    if not is_coll and max((len(z[2]) for z in after["mazes"]), default=0) > 127:
                        bump("probe_solution_longer_than_127")
                    if not is_coll and max((max(max(c) for c in z[2]) for z in after["mazes"]), default=0) > 127:
                        bump("probe_coordinate_above_127")
                    if not is_coll and any(len(z[2]) == 1 for z in after["mazes"]):
                        bump("probe_length1_solution")
                elif name == "save":
                    ds = slots.get(op[1])
                    if ds is None:
                        continue
                    is_coll = type(ds).__name__ == "MazeDatasetCollection"
                    how = "serialize" if is_coll else op[3].get("how", "serialize")  # which of the library's formats goes to the file
                    if is_coll:
                        if any(len(m) == 0 and selected_minimal(m) for m in ds.maze_datasets):
                            continue
                    elif skip_excluded(ds, how):
                        continue
                    before = full_model(ds)
                    p = path_arg(base_dir, op[2])
                    if op[2] != disk_name(op[2]):
                        bump("probe_save_target_spelled_without_extension_or_as_Path")
                    z = ZANJ(external_array_threshold=op[3].get("external_array_threshold", 256), compress=op[3].get("compress", True))
                    what = f"save({op[2]}, format={how}) of {'collection' if is_coll else 'dataset'} len={len(ds)}"
                    try:
                        if how == "serialize":
                            ds.save(p, zanj=z)
                        else:
                            z.save(getattr(ds, {"full": "_serialize_full", "minimal": "_serialize_minimal", "soln_cat": "_serialize_minimal_soln_cat"}[how])(), p)
                            bump("file_fmt_" + how)
                    except Exception as e:  # noqa: BLE001
                        key = _finding_key(ds, e)
                        return {"violation": ["C05.roundtrip-raised", f"{what} raised {type(e).__name__}: {str(e)[:200]}", key], "files": files, "events": events, "stats": stats}
                    after = full_model(ds)
                    if disk_name(op[2]) in files:
                        bump("probe_overwrite_existing_path")
                    files[disk_name(op[2])] = {"after": after, "before": before}
                    events.append(["save", op[2], len(ds), selected_minimal(ds) if not is_coll else None])
                elif name == "read":
                    ent = files.get(disk_name(op[1]))
                    if ent is None:
                        continue
                    p = path_arg(base_dir, ("path:" if op[1].startswith("path:") else "") + disk_name(op[1]))
                    what = f"{op[2]}({op[1]})"
                    try:
                        if op[2] == "ZANJ.read":
                            loaded = ZANJ().read(p)
                        elif ent["after"]["class"] == "MazeDatasetCollection":
                            loaded = MazeDatasetCollection.read(p)
                        else:
                            loaded = MazeDataset.read(p)
                    except Exception as e:  # noqa: BLE001
                        return {"violation": ["C05.read-raised", f"{what} raised {type(e).__name__}: {str(e)[:200]}", None], "files": files, "events": events, "stats": stats}
                    events.append(["read", op[1], op[2]])
                    bump("read_" + op[2])
                    if op[3]:
                        bump("probe_read_after_restart")
                    compare(full_model(loaded), ent["after"], ent["before"], what)
                    slots["r:" + op[1]] = loaded
            dk.finalize()
    except core.Violation as v:
        return {"violation": [v.oracle, v.msg, v.key], "files": files, "events": events, "stats": stats}
    return {"violation": None, "files": files, "events": events, "stats": stats}


def _finding_key(ds, e):
    "classify the specific input class of the known finding: minimal format selected for a dataset without any generation metadata"
    try:
        if isinstance(e, AssertionError) and "generation meta is not collected" in str(e):
            members = ds.maze_datasets if type(ds).__name__ == "MazeDatasetCollection" else [ds]
            if any(m.generation_metadata_collected is None and len(m) > 0 and m.mazes[0].generation_meta is None for m in members):
                return "minimal-format-without-any-generation-metadata"
    except Exception:  # noqa: BLE001
        pass
    return None


# ------------------------------------------------------------------------------------------------
# history generation (main process) and driver
# ------------------------------------------------------------------------------------------------
FAR_SIDES = [129, 128, 257, 127, 130, 256, 200]
FAR_COUNTER = [0]


def gen_history(rng: random.Random, tier: str) -> dict:
    ops: list = []
    paths = ["a.zanj", "b.zanj", "c.zanj"]
    if rng.random() < 0.35:
        # the same few files, spelled the ways callers spell them: without the extension, with dots in the bare name (a
        # sibling of another target), as pathlib.Path
        paths = ["a.zanj", "a", "a.v2", "path:b.zanj", "path:b.v2", "run-p0.5", "c.zanj"]
    slots: list = []
    n_ops = rng.randint(45, 70) if rng.random() < 0.03 else rng.randint(6, 14)  # a few long histories
    thresholds = [None, 0, 1, 2, 3, 5, 8, 100]
    if rng.random() < 0.7:
        ops.append(["threshold", rng.choice(thresholds)])
    long_paths = rng.random() < 0.12
    far_corner = (not long_paths) and rng.random() < 0.08
    long_lists = (not long_paths) and (not far_corner) and rng.random() < 0.07
    many_mazes = (not long_paths) and (not far_corner) and (not long_lists) and rng.random() < 0.05
    if many_mazes:
        # enough mazes for the archive writer to store the maze LIST itself as an external member (>= 256 items), in the
        # full format (threshold off or above the size)
        ops[:] = [["threshold", rng.choice([None, 1000])]]
    for i in range(n_ops):
        r = rng.random()
        if not slots or r < 0.2:
            if long_paths:
                # corner-to-corner routes through a 20x20 depth-first maze are usually longer than 127 cells
                # (the minimal formats store coordinates as int8 and lengths separately)
                g = rng.choice([18, 20])
                cfg = {"name": "long", "grid_n": g, "n_mazes": rng.randint(1, 3), "maze_ctor": "gen_dfs", "maze_ctor_kwargs": {}, "endpoint_kwargs": {"allowed_start": [[0, 0]], "allowed_end": [[g - 1, g - 1]]}, "seed": rng.randrange(1000), "applied_filters": []}
            elif many_mazes:
                cfg = {"name": "many", "grid_n": rng.choice([2, 3]), "n_mazes": rng.choice([255, 256, 257, 300]), "maze_ctor": rng.choice(["gen_dfs", "gen_wilson"]), "maze_ctor_kwargs": {}, "endpoint_kwargs": {}, "seed": rng.randrange(1000), "applied_filters": []}
            elif long_lists:
                # endpoint coordinate lists long enough for the archive writer to store them as external members
                # (ZANJ externalises lists of >= 256 entries): the configuration must come back from the file intact
                g = rng.choice([16, 17, 20])
                k = rng.choice([255, 256, 257, 300])
                cells = [[i // g, i % g] for i in range(min(k, g * g))]
                ek = {rng.choice(["allowed_start", "allowed_end"]): cells}
                cfg = {"name": "lists", "grid_n": g, "n_mazes": rng.randint(1, 2), "maze_ctor": rng.choice(["gen_dfs", "gen_wilson"]) if g <= 16 else "gen_dfs", "maze_ctor_kwargs": {}, "endpoint_kwargs": ek, "seed": rng.randrange(1000), "applied_filters": []}
            elif far_corner:
                # large grids, kept cheap: a small constrained depth-first tree grown from the far corner, so that the
                # solutions live at coordinates >= 127 (the minimal formats store coordinates in a narrow integer type)
                g = FAR_SIDES[(FAR_COUNTER[0]) % len(FAR_SIDES)]  # dealt, not drawn: a fault may live at exactly one of these sizes
                FAR_COUNTER[0] += 1
                cfg = {"name": "far", "grid_n": g, "n_mazes": rng.randint(1, 3), "maze_ctor": "gen_dfs", "maze_ctor_kwargs": {"accessible_cells": rng.randint(6, 30), "start_coord": [g - 1, g - 1 - rng.randrange(3)]}, "endpoint_kwargs": {}, "seed": rng.randrange(1000), "applied_filters": []}
            else:
                cfg = _ds.rand_cfgspec(rng, max_n=6, max_mazes=12, filters=False, rich_endpoints=False)
                if rng.random() < 0.25:
                    c = [rng.randrange(cfg["grid_n"]), rng.randrange(cfg["grid_n"])]
                    cfg["endpoint_kwargs"] = {"allowed_start": [c], "allowed_end": [c]}  # length-1 solutions
                if rng.random() < 0.15:
                    cfg["applied_filters"] = _ds.rand_filters(rng, cfg["grid_n"], cfg["n_mazes"], allow=("path_length", "truncate_count"))
            s = "s%d" % len(slots)
            slots.append(s)
            ops.append(["make", s, cfg])
        elif r < 0.32:
            src = rng.choice(slots)
            dst = "s%d" % len(slots)
            slots.append(dst)
            f = rng.choice(
                [
                    {"name": "path_length", "args": [rng.choice([1, 2, 3, 5, 100])], "kwargs": {}},
                    {"name": "truncate_count", "args": [rng.randint(0, 6)], "kwargs": {}},
                    {"name": "strip_generation_meta", "args": [], "kwargs": {}},
                    {"name": "collect_generation_meta", "args": [], "kwargs": {"inplace": False}},
                    {"name": "collect_generation_meta", "args": [], "kwargs": {}},
                    {"name": "remove_duplicates", "args": [], "kwargs": {}},
                ]
            )
            ops.append(["filter", src, dst, f])
            if rng.random() < 0.2 and f["name"] != "collect_generation_meta":
                dst2 = "s%d" % len(slots)
                slots.append(dst2)
                ops.append(["filter", dst, dst2, json.loads(json.dumps(f))])  # the same filter recorded twice in a row
        elif r < 0.36:
            ops.append(["threshold", rng.choice(thresholds)])
        elif r < 0.42:
            src = rng.choice(slots)
            dst = "s%d" % len(slots)
            slots.append(dst)
            if rng.random() < 0.35:
                mid = "s%d" % len(slots)
                slots.append(mid)
                ops.append(["reload", src, mid, rng.choice(["minimal", "minimal", "soln_cat", "full"])])
                ops.append(["hand", mid, dst + "h", [0] * rng.randint(1, 9), False, rng.random() < 0.5, "reorder-shared"])
                slots.append(dst + "h")
                ops.append(["mem", dst + "h", rng.choice(["minimal", "minimal", "serialize", "soln_cat", "full"])])
            ops.append(["hand", src, dst, [rng.randrange(12) for _ in range(rng.randint(1, 9))], rng.random() < 0.5, rng.random() < 0.5])
            if sum(ops[-1][3]) % 4 == 0:  # decided by what is already drawn: the specs of all other runs stay what they were
                ops[-1].append("explicit-none")
        elif r < 0.58:
            ops.append(["mem", rng.choice(slots), rng.choice(["serialize", "serialize", "full", "minimal", "soln_cat"])])
        elif r < 0.74:
            tgt = rng.choice(paths)
            rewrite = rng.random() < 0.3
            if rewrite:
                # read - rewrite - read again, in ONE process lifetime: the second read must see the rewritten file, whichever
                # way it was rewritten (the dataset's own save, or the archive writer given one of the explicit formats)
                ops.append(["read", tgt, "MazeDataset.read", False])
            ops.append(["save", rng.choice(slots), tgt, {"compress": rng.random() < 0.6, "external_array_threshold": rng.choice([256, 16, 0]), "how": rng.choice(["serialize", "serialize", "serialize", "full", "minimal", "soln_cat"])}])
            if rewrite:
                ops.append(["read", tgt, "MazeDataset.read", False])
        elif r < 0.88:
            ops.append(["read", rng.choice(paths), rng.choice(["MazeDataset.read", "MazeDataset.read", "ZANJ.read"]), False])
        elif r < 0.94:
            k = rng.randint(1, min(3, len(slots)))
            dst = "c%d" % i
            ops.append(["mkcoll", dst, rng.sample(slots, k), rng.choice(["shared", "copied", "copied"])])
            slots.append(dst)
        else:
            ops.append(["restart"])
            slots = []
    # always end with: restart, read every path both ways
    ops.append(["restart"])
    for p in sorted({disk_name(x) for x in paths}):
        ops.append(["read", p, "MazeDataset.read", True])
        if rng.random() < 0.5:
            ops.append(["read", p, "ZANJ.read", True])
    # mark reads that follow a restart
    seen_restart = False
    out = []
    for op in ops:
        if op[0] == "restart":
            seen_restart = True
        if op[0] == "read":
            op = [op[0], op[1], op[2], seen_restart]
        out.append(op)
    return {"ops": out, "clock": {"t0": float(rng.randrange(400_000_000, 4_000_000_000)), "steps": [rng.choice([0.0, 1.0, -3600.0, 0.5]) for _ in range(3)], "mem": rng.choice([0, 255, rng.randrange(1, 2**31)])}}


OPTIMIZE_SLOTS = {"quick": [2], "thorough": [2]}  # one interpreter slot in three runs under `python -O` (asserts stripped)


def gen_collection_history(rng: random.Random) -> dict:
    """the class the statement names explicitly - "collections, whose members may be empty when the full format is selected" -
    is too rare in the free swarm (3-4 per 450 histories), so it is dealt: a collection of two non-empty datasets and one
    filtered down to nothing, with the process-wide format threshold on either side of the member sizes and of the
    collection's total size, round-tripped in memory and through a file, before and after a restart"""
    t = rng.choice([None, 1, 2, 3, 5, 8, 100])
    ops: list = [["threshold", t]]
    c0 = _ds.rand_cfgspec(rng, max_n=5, max_mazes=8, filters=False, rich_endpoints=False)
    c2 = _ds.rand_cfgspec(rng, max_n=5, max_mazes=6, filters=False, rich_endpoints=False)
    ops.append(["make", "s0", c0])
    ops.append(["filter", "s0", "s1", rng.choice([{"name": "truncate_count", "args": [0], "kwargs": {}}, {"name": "path_length", "args": [10**6], "kwargs": {}}])])
    ops.append(["make", "s2", c2])
    if rng.random() < 0.4:
        ops.append(["threshold", rng.choice([None, 1, 2, 3, 5, 8, 100])])
    members = ["s0", "s1", "s2"]
    rng.shuffle(members)
    if rng.random() < 0.3:
        members = [m for m in members if m != rng.choice(["s0", "s2"])]
    ops.append(["mkcoll", "c0", members, rng.choice(["shared", "copied"])])
    ops.append(["mem", "c0", "serialize"])
    ops.append(["save", "c0", "a.zanj", {"compress": rng.random() < 0.6, "external_array_threshold": rng.choice([256, 16, 0]), "how": "serialize"}])
    ops.append(["read", "a.zanj", "MazeDataset.read", False])
    ops.append(["restart"])
    ops.append(["read", "a.zanj", "MazeDataset.read", True])
    return {"ops": ops, "clock": {"t0": float(rng.randrange(400_000_000, 4_000_000_000)), "steps": [0.0, 1.0, 0.5], "mem": rng.choice([0, 255])}}


def gen_far_history(rng: random.Random, g: int) -> dict:
    """boundary grid widths are dealt too (a narrow integer type may fail at exactly one of them): a small tree in the far corner
    of a g-wide grid, through every format in memory and through a file, before and after a restart"""
    cfg = {"name": "far", "grid_n": g, "n_mazes": rng.randint(1, 3), "maze_ctor": "gen_dfs", "maze_ctor_kwargs": {"accessible_cells": rng.randint(8, 30), "start_coord": [g - 1, g - 1 - rng.randrange(3)]}, "endpoint_kwargs": {}, "seed": rng.randrange(1000), "applied_filters": []}
    ops: list = [["threshold", rng.choice([None, 1, 100])], ["make", "s0", cfg]]
    for how in ("minimal", "soln_cat", "serialize", "full"):
        ops.append(["mem", "s0", how])
    ops.append(["save", "s0", "a.zanj", {"compress": rng.random() < 0.6, "external_array_threshold": rng.choice([256, 16, 0]), "how": rng.choice(["minimal", "soln_cat", "serialize"])}])
    ops.append(["read", "a.zanj", "MazeDataset.read", False])
    ops.append(["restart"])
    ops.append(["read", "a.zanj", "MazeDataset.read", True])
    return {"ops": ops, "clock": {"t0": float(rng.randrange(400_000_000, 4_000_000_000)), "steps": [0.0, 1.0, 0.5], "mem": rng.choice([0, 255])}}


def gen_specs(rng: random.Random, tier: str, n: int) -> list[dict]:
    FAR_COUNTER[0] = 0
    out = []
    for i in range(n):
        if i % 15 == 4:
            h = gen_collection_history(rng)
        elif i % 12 == 7:
            h = gen_far_history(rng, FAR_SIDES[(i // 12) % len(FAR_SIDES)])
        else:
            h = gen_history(rng, tier)
        out.append(dict(h, seed=rng.getrandbits(48), slot=i % 3))
    return out


def run(spec: dict, ctx) -> dict:
    log = core.EventLog()
    stats: dict = {}
    segs: list = [[]]
    for op in spec["ops"]:
        if op[0] == "restart":
            segs.append([])
        else:
            segs[-1].append(op)
    files: dict = {}
    base = os.path.join(ctx.scratch, "disk")
    os.makedirs(base, exist_ok=True)
    nontrivial = False
    for si, seg in enumerate(segs):
        if not seg:
            continue
        res = core.stage(st_segment, seg, base, spec["clock"], files, timeout=600.0)
        files = res["files"]
        log.add("segment", si, res["events"])
        for k, v in res["stats"].items():
            stats[k] = stats.get(k, 0) + v
        if res["violation"]:
            o, m, key = res["violation"]
            return core.violation(o, m, log, key=key, stats=stats, spec=spec)
    stats["segments"] = sum(1 for s in segs if s)
    if stats.get("probe_read_after_restart") or stats.get("fmt_MazeDataset:minimal") or stats.get("fmt_MazeDataset:minimal_soln_cat"):
        nontrivial = True
    return core.ok(log, stats=stats, nontrivial=log.digest() if nontrivial else None)


def shrink(spec: dict, result: dict):
    ops = spec["ops"]
    n = len(ops)
    span = max(1, n // 2)
    while span >= 1:
        for start in range(0, n, span):
            cand = ops[:start] + ops[start + span :]
            if cand and len(cand) < n:
                yield dict(spec, ops=cand)
        span //= 2
    for i, op in enumerate(ops):
        if op[0] == "make":
            c = op[2]
            for fld, val in (("n_mazes", max(1, c["n_mazes"] // 2)), ("grid_n", max(2, c["grid_n"] - 1)), ("maze_ctor_kwargs", {}), ("endpoint_kwargs", {}), ("applied_filters", [])):
                if c.get(fld) != val:
                    yield dict(spec, ops=ops[:i] + [["make", op[1], dict(c, **{fld: val})]] + ops[i + 1 :])


def sample_of(spec, result):
    return {"ops": [op if op[0] != "make" else ["make", op[1], {k: op[2][k] for k in ("grid_n", "n_mazes", "maze_ctor")}] for op in spec["ops"]], "digest": result.get("digest")}
